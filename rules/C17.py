"""C17 — block I/O layer: coherent, durable on flush, errors reported, race-free under threads.
DESIGN.md §4 C17."""
from vlib import tree as T
from vlib import effects, lockset, absint
from vlib.rulelib import *
from vlib.engine import Broken, line_path

EXPLANATION = (
    "Static rules over lib/ext2fs/unix_io.c (and the wrapping managers): (a) coherence — every device write that "
    "bypasses the cache in a mutating slot of the unix manager is preceded on all paths by a FLUSH_INVALIDATE flush "
    "(or is the write-through arm that refills the cache), and flush_cached_blocks(FLUSH_INVALIDATE) leaves no in-use "
    "entry behind except on a write error; direct reads flush first; (b) durability — unix_flush writes the cache then "
    "fsyncs on every zero-return path, unix_close flushes before close, reuse_cache writes a dirty victim before reusing it; "
    "(c) error flow — results of raw_write_blk / flush_cached_blocks / reuse_cache / backing-channel calls reach the "
    "slot's return value on every path (path-sensitive), syscall results are never discarded; (d) lock discipline — "
    "must-hold lockset dataflow: cache fields under CACHE_MTX, bounce buffer and seek+read/write pairs under BOUNCE_MTX, "
    "io_stats under STATS_MTX; shared bitmap updates of the threaded bitmap loader under its mutex; threads joined "
    "before the result is used.")

UFILE = "lib/ext2fs/unix_io.c"
MUTATING_RAW = ("pwrite", "pwrite64", "write", "fallocate", "fallocate64", "posix_fallocate")


def content_change(fn, n):
    """raw call that changes device *content*"""
    if is_call(n, *MUTATING_RAW):
        return True
    if effects.is_discard_ioctl(fn, n):
        return True
    return False


def run(world, rep, tier, only=None):
    prog = world.program("e2fsck")
    g = [x for x in world.globals_named("struct_unix_manager", prog) if x["file"] == UFILE]
    if len(g) != 1:
        raise Broken("struct_unix_manager initialiser not found")
    slots = {}
    for f, v in g[0]["init"].get("f", {}).items():
        v = T.strip(v)
        if isinstance(v, dict) and v.get("k") == "fn":
            slots[f] = v["n"]
    rep.floor("unix manager slots", len(slots), 12)
    ufns = {f.name: f for f in prog.fns_in_file(UFILE)}

    # functions of unix_io.c that may change device content (closure inside the file)
    may_raw = prog.may(lambda f, n: f.file == UFILE and content_change(f, n),
                       stop=lambda f: f.file != UFILE)
    mutating_slots = {s: fn for s, fn in slots.items()
                      if s in ("write_blk", "write_blk64", "write_byte", "discard", "zeroout")}
    computed = {s for s, fn in slots.items() if (UFILE, fn) in may_raw and s not in ("close", "flush", "set_blksize",
                "read_blk", "read_blk64", "open", "cache_readahead", "get_stats", "set_option")}
    rep.ob("C17.a", "%s:struct_unix_manager:mutating slots" % UFILE, computed == set(mutating_slots),
           "slots whose implementation may change device content: %s" % sorted(computed))

    # ------------------------------------------------------------------ C17.a coherence
    n_bypass = 0
    for slot, fname in sorted(mutating_slots.items()):
        fn = ufns.get(fname)
        if fn is None:
            raise Broken("slot function %s vanished" % fname)
        inval = [n for n in calls_to(fn, "flush_cached_blocks") if arg_has_macro(n, 2, "FLUSH_INVALIDATE")]
        for n in fn.call_nodes():
            c = n.ev["x"]
            if is_call(n, "flush_cached_blocks", "reuse_cache"):
                continue
            direct = content_change(fn, n)
            via = [gfn for gfn in prog.callees(fn, c) if gfn.key in may_raw and gfn.file == UFILE]
            if not direct and not via:
                continue
            if any(gfn.name in ("unix_write_blk64",) for gfn in via) and fname == "unix_write_blk":
                continue  # plain forwarder to the 64-bit slot
            n_bypass += 1
            idx = [x for x in fn.call_nodes() if x.line <= n.line].__len__()
            # accepted: NOCACHE arm
            lits = control_lits(fn, n)
            if any(t and lit_tests_bit(a, "IO_FLAG_NOCACHE", "flags") for t, a in lits):
                rep.ob("C17.a", site(fn, "bypass write under IO_FLAG_NOCACHE:%s" % _cn(n)), True,
                       "no cache in use on this arm")
                continue
            # accepted: write-through arm that refills the cache afterwards
            if any(t and T.path(resolve_local(fn, a)) in ("writethrough",) or
                   (t and lit_tests_bit(resolve_local(fn, a), "CHANNEL_FLAGS_WRITETHROUGH")) for t, a in lits):
                after = fn.reach(fn.after(n))
                refill = [x for x in after if is_call(x, "memcpy") and
                          (T.path(arg(x, 0)) or "").endswith("cache->buf")]
                rep.ob("C17.a", site(fn, "write-through arm refills the cache:%s" % _cn(n)), bool(refill),
                       "the same blocks are copied into cache entries after the write-through write")
                continue
            ok = fn.dominated_by(n, inval)
            wit = None
            if not ok:
                p = fn.witness_path([fn.entry_node()], [n], avoid=inval)
                wit = line_path(p) if p else None
            rep.ob("C17.a", site(fn, "bypass write preceded by FLUSH_INVALIDATE:%s" % _cn(n)), ok,
                   "device-content change `%s` is dominated by flush_cached_blocks(…FLUSH_INVALIDATE)" % n.text()[:50], wit)
        # ftruncate only extends
        for n in calls_to(fn, "ftruncate", "ftruncate64"):
            lits = control_lits(fn, n)
            ok = any(t and any(f[1] == "st_size" for f in T.fields(a)) for t, a in lits)
            rep.ob("C17.a", site(fn, "ftruncate only extends the file"), ok,
                   "ftruncate is under the st_size < end comparison: %s" % [T.pp(a)[:40] for t, a in lits])
    rep.floor("C17.a bypass write sites", n_bypass, 5)

    # the NOCACHE arm above is sound only if the cache is empty whenever IO_FLAG_NOCACHE gets set,
    # and the block->position mapping may change only over an empty cache
    for fn in ufns.values():
        if fn.name in ("unix_open_channel", "unix_open", "unixfd_open"):
            continue    # channel not yet in use: the cache is still empty
        inval = [n for n in calls_to(fn, "flush_cached_blocks") if arg_has_macro(n, 2, "FLUSH_INVALIDATE")]
        for n in fn.events("S"):
            lf = T.last_field(n.ev["lhs"])
            if lf == ("unix_private_data", "flags") and store_sets_bits(n, "IO_FLAG_NOCACHE"):
                rep.ob("C17.a", site(fn, "cache emptied before IO_FLAG_NOCACHE is set"), fn.dominated_by(n, inval),
                       "`%s` is dominated by flush_cached_blocks(…FLUSH_INVALIDATE)" % n.text()[:40])
            if lf == ("unix_private_data", "offset") and n.ev["o"] == "=":
                rep.ob("C17.a", site(fn, "cache emptied before the offset changes"), fn.dominated_by(n, inval),
                       "`%s` is dominated by flush_cached_blocks(…FLUSH_INVALIDATE)" % n.text()[:40])

    # invalidation contract of flush_cached_blocks
    fc = ufns.get("flush_cached_blocks")
    if fc is None:
        raise Broken("flush_cached_blocks vanished")
    rw = calls_to(fc, "raw_write_blk")
    rep.floor("C17.a raw_write_blk in flush_cached_blocks", len(rw), 1)
    loop_head = None
    for bid, b in fc.blocks.items():
        t = b.get("t")
        if t and t.get("k") == "for":
            body = b["s"][0]
            r = fc.reach([fc.node(body, 0)], avoid=[fc.block_end(bid)])
            if rw[0] in r:
                loop_head = bid
                break
    if loop_head is None:
        raise Broken("write-out loop of flush_cached_blocks not found")
    S = [n for n in fc.events("S") if T.last_field(n.ev["lhs"]) == ("unix_cache", "in_use")
         and T.const(n.ev.get("rhs")) == 0]

    def contract_edges(nn, si, m):
        lit = fc.literal(nn.bid)
        if lit is None:
            return True
        atom, pos = lit
        truth = pos if si == 0 else (not pos)
        if lit_tests_bit(atom, "FLUSH_INVALIDATE", "flags"):
            return truth            # the caller asked for invalidation
        lf = T.last_field(atom)
        if lf == ("unix_cache", "in_use"):
            return truth            # the entry is in use
        if T.path(atom) == "retval":
            return not truth        # no write error
        return True
    body0 = fc.node(fc.blocks[loop_head]["s"][0], 0)
    head_end = fc.block_end(loop_head)
    r = fc.reach([body0], avoid=set(S) | {head_end}, edge_ok=contract_edges)
    # reaching a predecessor of the loop head = finishing the iteration without invalidating
    finishing = [p for p in fc.pred(fc.node(loop_head, 0)) if p in r]
    wit = None
    if finishing:
        p = fc.witness_path([body0], finishing, avoid=set(S) | {head_end}, edge_ok=contract_edges)
        wit = line_path(p) if p else None
    rep.ob("C17.a", site(fc, "FLUSH_INVALIDATE drops every in-use entry"), not finishing and bool(S),
           "no path through one iteration with the entry in use, FLUSH_INVALIDATE requested and no write error "
           "that keeps cache->in_use set", wit)

    # reads that bypass the cache flush first; set_blksize flushes before dropping the cache
    rd = ufns.get("unix_read_blk64")
    fl = calls_to(rd, "flush_cached_blocks")
    for n in calls_to(rd, "raw_read_blk"):
        lits = control_lits(rd, n)
        if any(t and lit_tests_bit(a, "IO_FLAG_NOCACHE", "flags") for t, a in lits):
            rep.examined()
            continue
        buf = T.path(arg(n, 4))
        if buf == "buf":       # reads straight into the caller's buffer for the whole request
            rep.ob("C17.a", site(rd, "direct read preceded by flush"), rd.dominated_by(n, fl),
                   "raw_read_blk(…buf) on the large/odd arm is dominated by flush_cached_blocks")
        else:
            rep.examined()
    sb = ufns.get("unix_set_blksize")
    for n in calls_to(sb, "free_cache"):
        rep.ob("C17.a", site(sb, "flush before free_cache"), sb.dominated_by(n, calls_to(sb, "flush_cached_blocks")),
               "cache contents written before the cache is dropped")

    # ------------------------------------------------------------------ C17.b durability
    flush_durability(prog, rep, "C17.b", "")
    # flush_cached_blocks: failure returned, failed entry stays dirty
    for n in rw:
        badr = failure_returns(fc, prog, n)
        rep.ob("C17.b", site(fc, "raw_write_blk failure returned"), not badr,
               "a failed write-out makes flush_cached_blocks return non-zero",
               [(b[0].line, str(b[1]), b[2]) for b in badr[:2]] or None)
        # on the failure edge the entry is not marked clean within the same iteration
        clean = [x for x in fc.events("S") if T.last_field(x.ev["lhs"]) == ("unix_cache", "dirty")
                 and T.const(x.ev.get("rhs")) == 0]

        def fail_edge(nn, si, m):
            lit = fc.literal(nn.bid)
            if lit and T.path(lit[0]) == "retval":
                truth = lit[1] if si == 0 else (not lit[1])
                return truth
            return True
        r2 = fc.reach(fc.after(n), avoid=[head_end], edge_ok=fail_edge)
        rep.ob("C17.b", site(fc, "failed entry stays dirty"), not any(c in r2 for c in clean),
               "no store cache->dirty = 0 on the failure arm of the write-out")
    # unix_close flushes before close(2) and returns either error
    uc = ufns.get(slots.get("close", ""))
    cl = calls_to(uc, "close")
    rep.floor("C17.b close(2) in unix_close", len(cl), 1)
    ufl = calls_to(uc, "flush_cached_blocks")
    for c in cl:
        rep.ob("C17.b", site(uc, "flush before close(2)"), uc.dominated_by(c, ufl),
               "flush_cached_blocks dominates close(data->dev)")
    for f in ufl:
        badr = failure_returns(uc, prog, f)
        rep.ob("C17.b", site(uc, "flush failure returned by close"), not badr, "error reaches unix_close's return",
               [(b[0].line, str(b[1]), b[2]) for b in badr[:2]] or None)
    # reuse_cache: dirty victim written before reuse, error returned, entry untouched on error
    rc = ufns.get("reuse_cache")
    rcw = calls_to(rc, "raw_write_blk")
    rep.floor("C17.b reuse_cache write-out", len(rcw), 1)
    reuse_stores = [x for x in rc.events("S") if T.last_field(x.ev["lhs"]) in
                    (("unix_cache", "block"), ("unix_cache", "dirty"))]
    for n in rcw:
        lits = control_lits(rc, n)
        rep.ob("C17.b", site(rc, "victim written when dirty"),
               any(t and T.last_field(a) == ("unix_cache", "dirty") for t, a in lits),
               "raw_write_blk is under cache->dirty")
        badr = failure_returns(rc, prog, n)
        rep.ob("C17.b", site(rc, "victim write failure returned"), not badr, "error returned",
               [(b[0].line, str(b[1]), b[2]) for b in badr[:2]] or None)

        def fail_edge2(nn, si, m):
            lit = rc.literal(nn.bid)
            if lit and T.path(lit[0]) == "retval":
                truth = lit[1] if si == 0 else (not lit[1])
                return truth
            return True
        r3 = rc.reach(rc.after(n), edge_ok=fail_edge2)
        rep.ob("C17.b", site(rc, "entry not reused after failed write-out"), not any(s in r3 for s in reuse_stores),
               "cache->block/dirty are not overwritten on the failure arm")
    # the dirty test guards reuse: with the dirty edge forced true, reuse stores are dominated by the write-out
    for s in reuse_stores[:1]:
        def dirty_true(nn, si, m):
            lit = rc.literal(nn.bid)
            if lit and T.last_field(lit[0]) in (("unix_cache", "dirty"), ("unix_cache", "in_use")):
                truth = lit[1] if si == 0 else (not lit[1])
                return truth
            return True
        r4 = rc.reach([rc.entry_node()], avoid=set(rcw), edge_ok=dirty_true)
        rep.ob("C17.b", site(rc, "dirty in-use victim is written before reuse"), s not in r4,
               "with the entry dirty and in use, reuse is reachable only through raw_write_blk")

    # ------------------------------------------------------------------ C17.f a bounce-buffered write keeps what it does not overwrite
    # The bounce path of raw_write_blk() writes whole aligned units.  A unit that the request covers only in part -
    # because the request is shorter than the unit, or because it starts inside it - is read first, so that the bytes in
    # front of and behind the request survive.  "Starts inside" is decided by the offset alone: the pre-read is reached
    # whenever the offset is non-zero, whatever the length.
    from vlib import rulelib as _rl
    rwb = ufns["raw_write_blk"]
    pre = [n for n in calls_to(rwb, "read", "pread", "pread64") if _rl.loop_head(rwb, n) is not None and
           any("bounce" in T.field_names(a_) for a_ in n.ev["x"].get("a", []) if isinstance(a_, dict))] + \
        [n for n in rwb.events("S") if _rl.loop_head(rwb, n) is not None and
         any(cc.get("fn") in ("read", "pread", "pread64") and any("bounce" in T.field_names(a_) for a_ in cc.get("a", []) if isinstance(a_, dict))
             for cc in T.calls(n.ev.get("rhs") or {}))]
    rep.floor("C17.f pre-read of the bounce buffer in the write loop", len(pre), 1)
    for i_, n in enumerate(pre):
        lits = control_lits(rwb, n) + restrict_lits(rwb, n)
        by_offset = any(t is True and (T.path(a_) == "offset" or
                                       (isinstance(T.strip(a_), dict) and T.strip(a_).get("k") == "b" and T.strip(a_).get("o") in ("!=", ">") and
                                        T.path(T.strip(a_).get("l")) == "offset" and T.const(T.strip(a_).get("r")) == 0))
                        for t, a_ in lits)
        rep.ob("C17.f", site(rwb, "a unit entered at a non-zero offset is read before it is written#%d" % i_), by_offset,
               "the pre-read `%s` is reached whenever `offset` is non-zero: guards %s" %
               (n.text()[:30], [("" if t else "!") + T.pp(a_)[:30] for t, a_ in lits if t is not None][:4]))

    # ------------------------------------------------------------------ C17.e what was read from the device never replaces a cached block
    # unix_read_blk64() drops the cache mutex while it reads; a block may have been written (and cached, dirty)
    # meanwhile.  When the freshly read blocks are saved in the cache, a block that is in the cache by then is the
    # newer one: the copy into a cache slot happens only for a slot just taken over because the block was absent.
    rd_ = ufns.get("unix_read_blk64")
    if rd_ is None:
        raise Broken("unix_read_blk64 vanished")
    saves = [n for n in calls_to(rd_, "memcpy", "__builtin___memcpy_chk")
             if T.last_field(arg(n, 0) or {}) == ("unix_cache", "buf")]
    rep.floor("C17.e copies into a cache slot in unix_read_blk64", len(saves), 1)
    for i, sv in enumerate(saves):
        from vlib import rulelib as _rl
        hb_ = _rl.loop_head(rd_, sv)
        body_ = _rl.loop_body(rd_, hb_) if hb_ is not None else set(rd_.nodes())
        # the look-up that counts is the one made while saving (same loop turn), not the one made before the read
        inner = [(t, a) for (b_, t, a) in rd_.control_literals(sv) if rd_.block_end(b_) in body_ and b_ != hb_]
        absent = any((not t) and (any(c.get("fn") == "find_cached_block" for c in T.calls(a)) or
                                  depends_on(rd_, a, lambda y: isinstance(y, dict) and y.get("k") == "c" and
                                             y.get("fn") == "find_cached_block", depth=1)) for t, a in inner)
        took = [c for c in calls_to(rd_, "reuse_cache") if hb_ is None or c in loop_body(rd_, hb_)]
        fresh = bool(took) and rd_.dominated_by(sv, took) and (hb_ is None or not rd_.reach([rd_.node(hb_, 0)], avoid=took) & {sv})
        rep.ob("C17.e", site(rd_, "read data copied only into a slot taken for an absent block#%d" % i), absent or fresh,
               "`%s` (line %d) is under `!find_cached_block(...)`: %s; or every path of this loop turn to it passes reuse_cache(): %s" %
               (sv.text()[:40], sv.line, absent, fresh))

    # ------------------------------------------------------------------ C17.c error flow
    # write side only: "a failed device write is reported to the caller"
    ERR_FUNCS = ("raw_write_blk", "flush_cached_blocks", "reuse_cache",
                 "io_channel_write_blk64", "io_channel_write_blk", "io_channel_write_byte", "io_channel_flush",
                 "io_channel_zeroout", "io_channel_discard",
                 "struct_io_manager.flush", "struct_io_manager.write_byte", "undo_write_tdb",
                 "write_undo_indexes", "unix_write_blk64")
    SYSCALLS = ("pwrite", "pwrite64", "write", "fsync", "fdatasync", "ftruncate", "ftruncate64", "fallocate",
                "fallocate64")
    EXEMPT = {
        ("lib/ext2fs/unix_io.c", "unix_open_channel", "fsync"): "`(void) fsync(fd)` at open only clears stale error state",
        ("lib/ext2fs/undo_io.c", "undo_atexit", "*"): "atexit handler: nowhere to report",
        ("lib/ext2fs/undo_io.c", "undo_close", "io_channel_close"): "noted in DESIGN §5 (outside C17's quantifier)",
        ("lib/ext2fs/unix_io.c", "unix_write_blk64", "raw_write_blk#writethrough"):
            "write-through write's error is kept in retval and returned after the cache was filled",
        ("lib/ext2fs/unix_io.c", "unix_open_channel", "close"): "error path cleanup",
        ("lib/ext2fs/undo_io.c", "undo_open", "close"): "error path cleanup",
        ("lib/ext2fs/test_io.c", "test_close", "*"): "debug manager teardown",
    }
    files = ["lib/ext2fs/unix_io.c", "lib/ext2fs/undo_io.c", "lib/ext2fs/test_io.c", "lib/ext2fs/io_manager.c",
             "lib/ext2fs/inode_io.c", "lib/ext2fs/sparse_io.c"]
    n_err = 0
    for file in files:
        for fn in prog.fns_in_file(file):
            void_fn = fn.raw.get("ret") == "void"
            for n in fn.call_nodes():
                names = T.call_names(n.ev["x"])
                nm = next((x for x in names if x in ERR_FUNCS), None)
                sc = next((x for x in names if x in SYSCALLS), None)
                if not nm and not sc:
                    continue
                key = nm or sc
                if (file, fn.name, key) in EXEMPT or (file, fn.name, "*") in EXEMPT:
                    rep.examined()
                    continue
                n_err += 1
                k = _occ(fn, n, key)
                used = _result_used(fn, n)
                if sc and not nm:
                    rep.ob("C17.c", site(fn, "%s result used#%d" % (key, k)), used,
                           "result of %s is compared or stored: `%s`" % (key, n.text()[:50]))
                    continue
                if void_fn:
                    rep.ob("C17.c", site(fn, "%s result used#%d" % (key, k)), used,
                           "void function: result of %s at least tested" % key)
                    continue
                bad = failure_returns(fn, prog, n)
                # accepted idiom: the error is handed to the channel's error handler whose result is returned
                bad = [b for b in bad if not _handler_result(fn, b)]
                rep.ob("C17.c", site(fn, "%s failure reaches return#%d" % (key, k)), not bad,
                       "a non-zero result of `%s` makes %s return non-zero on every path" % (n.text()[:40], fn.name),
                       [("return line %d value %s" % (b[0].line, b[1]), b[2]) for b in bad[:2]] or None)
    rep.floor("C17.c error-flow sites", n_err, 40)

    # ------------------------------------------------------------------ C17.d lock discipline
    CACHE, BOUNCE, STATS = "CACHE_MTX", "BOUNCE_MTX", "STATS_MTX"

    def lock_event(n):
        if is_call(n, "mutex_lock", "mutex_unlock"):
            ms = T.macros(arg(n, 1)) & {CACHE, BOUNCE, STATS}
            if len(ms) == 1:
                return ("L" if is_call(n, "mutex_lock") else "U", next(iter(ms)))
        return None

    def protected(n):
        """-> list of (lock, what) accessed by this node's own expression"""
        out = []
        trees = []
        if n.ev:
            for key in ("x", "lhs", "rhs"):
                if isinstance(n.ev.get(key), dict):
                    trees.append(n.ev[key])
        else:
            t = n.fn.blocks[n.bid].get("t")
            if t and isinstance(t.get("c"), dict):
                trees.append(t["c"])
        for tr in trees:
            for x in T.walk(tr):
                if x.get("k") == "m":
                    r, f = x.get("r"), x["f"]
                    if r == "unix_cache" and f in ("block", "access_time", "dirty", "in_use", "write_err", "buf"):
                        out.append((CACHE, "cache->" + f))
                    elif r == "unix_private_data" and f in ("cache", "access_time"):
                        out.append((CACHE, "data->" + f))
                    elif r == "unix_private_data" and f == "bounce":
                        out.append((BOUNCE, "data->bounce"))
                    elif r == "struct_io_stats" and f in ("bytes_read", "bytes_written"):
                        out.append((STATS, "io_stats." + f))
        # seek + read/write pairs on the shared descriptor
        if n.ev and is_call(n, "ext2fs_llseek", "lseek", "read", "write"):
            if n.fn.name in ("raw_read_blk", "raw_write_blk"):
                out.append((BOUNCE, "seek/transfer pair on data->dev"))
        return out

    # contexts: (function, entry-held, edge filter description)
    def nolock_ctx(fn, nolock):
        def ok(nn, si, m):
            lit = fn.literal(nn.bid)
            if lit and lit_tests_bit(lit[0], "FLUSH_NOLOCK", "flags"):
                truth = lit[1] if si == 0 else (not lit[1])
                return truth == nolock
            return True
        return ok

    SINGLE = {"unix_open": "channel not yet shared", "unix_open_channel": "channel not yet shared",
              "unixfd_open": "channel not yet shared", "unix_close": "last reference: no other user by contract",
              "alloc_cache": "called at open or under both locks in set_blksize",
              "free_cache": "called at close or under both locks in set_blksize",
              "unix_write_byte": "not reachable from the threaded bitmap loader; takes no lock (noted)",
              "unix_get_stats": "hands out a pointer under STATS_MTX"}
    # entry-held sets of helpers, derived from their call sites (intersection), by fixpoint
    helpers = ["find_cached_block", "reuse_cache", "flush_cached_blocks", "raw_read_blk", "raw_write_blk"]
    entry = {h: None for h in helpers}
    ctxs = {}
    order = [f for f in ufns.values() if f.name not in SINGLE]
    for _round in range(4):
        changed = False
        for fn in order:
            variants = [("", None, entry.get(fn.name) if fn.name in entry else frozenset())]
            if fn.name == "flush_cached_blocks":
                variants = [("[locking]", nolock_ctx(fn, False), frozenset()),
                            ("[FLUSH_NOLOCK]", nolock_ctx(fn, True), frozenset([CACHE]))]
            for (vn, eok, held0) in variants:
                if held0 is None:
                    continue
                IN = lockset.must_hold(fn, lock_event, held0, eok)
                ctxs[(fn.name, vn)] = (fn, IN)
                for n, held in IN.items():
                    if n.ev and n.ev["e"] == "C":
                        c = n.ev["x"].get("fn")
                        if c in entry and c != "flush_cached_blocks":
                            new = held if entry[c] is None else (entry[c] & held)
                            if new != entry[c]:
                                entry[c] = new
                                changed = True
        if not changed:
            break
    n_acc = 0
    for (fname, vn), (fn, IN) in sorted(ctxs.items()):
        viol = {}
        for n, held in IN.items():
            for (lk, what) in protected(n):
                n_acc += 1
                if lk not in held:
                    viol.setdefault((lk, what), []).append(n)
        accs = {}
        for n, held in IN.items():
            for (lk, what) in protected(n):
                accs.setdefault((lk, what), 0)
                accs[(lk, what)] += 1
        for (lk, what), cnt in sorted(accs.items()):
            v = viol.get((lk, what), [])
            rep.ob("C17.d", site(fn, "%s under %s%s" % (what, lk, vn)), not v,
                   "%d accesses, all with %s held (must-hold dataflow; entry-held %s)" %
                   (cnt, lk, sorted(entry.get(fname) or [])),
                   [x.where() + " " + x.text()[:50] for x in v[:3]] or None)
    rep.floor("C17.d protected accesses", n_acc, 25)
    # FLUSH_NOLOCK callers hold the cache lock
    for fn in ufns.values():
        if fn.name in SINGLE and fn.name != "unix_close":
            continue
        ent = ctxs.get((fn.name, ""))
        if not ent:
            continue
        for n in calls_to(fn, "flush_cached_blocks"):
            if arg_has_macro(n, 2, "FLUSH_NOLOCK"):
                held = ent[1].get(n, frozenset())
                rep.ob("C17.d", site(fn, "FLUSH_NOLOCK caller holds CACHE_MTX"), CACHE in held,
                       "flush_cached_blocks(FLUSH_NOLOCK) is called with the cache lock held")
    # no call that may acquire a lock the caller already holds (non-recursive mutexes)
    direct_acq = {}
    for fn in ufns.values():
        ks = set()
        for n in fn.call_nodes():
            le = lock_event(n)
            if le and le[0] == "L":
                ks.add(le[1])
        direct_acq[fn.name] = ks
    acq = {k: set(v) for k, v in direct_acq.items()}
    for _r in range(6):
        for fn in ufns.values():
            for n in fn.call_nodes():
                c = n.ev["x"].get("fn")
                if c in acq and c != fn.name:
                    extra = set(acq[c])
                    if c == "flush_cached_blocks" and arg_has_macro(n, 2, "FLUSH_NOLOCK"):
                        extra -= {CACHE} - set().union(*[acq.get(x, set()) for x in ("raw_write_blk",)])
                    acq[fn.name] |= extra
    n_calls = 0
    for (fname, vn), (fn, IN) in sorted(ctxs.items()):
        for n, held in IN.items():
            if not (n.ev and n.ev["e"] == "C"):
                continue
            le = lock_event(n)
            if le and le[0] == "L":
                n_calls += 1
                rep.ob("C17.d", site(fn, "no re-acquisition of %s%s#%d" % (le[1], vn, _occ(fn, n, "mutex_lock"))),
                       le[1] not in held, "mutex_lock(%s) with %s held" % (le[1], sorted(held)))
                continue
            c = n.ev["x"].get("fn")
            if c in acq and c not in ("mutex_lock", "mutex_unlock"):
                may = set(acq[c])
                if c == "flush_cached_blocks" and arg_has_macro(n, 2, "FLUSH_NOLOCK"):
                    may = (may - {CACHE}) | (acq.get("raw_write_blk", set()))
                clash = may & held
                if not held:
                    rep.examined()
                    continue
                n_calls += 1
                rep.ob("C17.d", site(fn, "callee %s acquires no held lock%s#%d" % (c, vn, _occ(fn, n, c))), not clash,
                       "%s may acquire %s; held at the call: %s" % (c, sorted(may), sorted(held)))
    rep.floor("C17.d lock-order sites", n_calls, 10)
    # every lock is released on every return path
    for (fname, vn), (fn, IN) in sorted(ctxs.items()):
        base = entry.get(fname) if fname in entry else frozenset()
        if fname == "flush_cached_blocks":
            base = frozenset([CACHE]) if vn == "[FLUSH_NOLOCK]" else frozenset()
        ex_held = IN.get(fn.exit_node())
        if ex_held is None:
            continue
        # must-hold at exit equal to entry-held means no path leaks a lock *that all paths hold*;
        # leaks on some paths: check may-hold by exploring with union instead
        rep.ob("C17.d", site(fn, "locks balanced%s" % vn), ex_held == (base or frozenset()),
               "locks held at return = locks held at entry (%s)" % sorted(ex_held))

    # threaded bitmap loader
    rbf = "lib/ext2fs/rw_bitmaps.c"
    rs = prog.fn("read_bitmaps_range_start", rbf)

    def rb_lock(n):
        if is_call(n, "unix_pthread_mutex_lock"):
            return ("L", "rbt")
        if is_call(n, "unix_pthread_mutex_unlock"):
            return ("U", "rbt")
        return None
    IN = lockset.must_hold(rs, rb_lock)
    shared = [n for n in rs.call_nodes() if is_call(n, "ext2fs_set_block_bitmap_range2", "ext2fs_set_inode_bitmap_range2",
                                                    "ext2fs_mark_block_bitmap_range2", "ext2fs_mark_inode_bitmap2",
                                                    "ext2fs_mark_block_bitmap2")
              and (arg_path_endswith(n, 0, "block_map") or arg_path_endswith(n, 0, "inode_map"))]
    rep.floor("C17.d shared bitmap updates in read_bitmaps_range_start", len(shared), 2)
    rw_ = prog.fn("ext2fs_rw_bitmaps", rbf)
    creates = calls_to(rw_, "pthread_create")
    img_excluded = bool(creates) and all(
        any((not t) and lit_tests_bit(a, "EXT2_FLAG_IMAGE_FILE", "flags") for t, a in control_lits(rw_, c))
        for c in creates)
    for i, n in enumerate(shared):
        if "rbt" in IN.get(n, frozenset()):
            ok, why = True, "executes with the loader mutex held"
        else:
            img = any(t and lit_tests_bit(a, "EXT2_FLAG_IMAGE_FILE", "flags") for t, a in control_lits(rs, n))
            ok = img and img_excluded
            why = "image-file arm (fs->flags & EXT2_FLAG_IMAGE_FILE): threads are only created when that bit is clear" \
                if ok else "NOT under the loader mutex"
        rep.ob("C17.d", site(rs, "shared bitmap update under loader mutex#%d" % i), ok,
               "`%s` %s" % (n.text()[:50], why))
    # no store to fs-> scalars in thread-reachable code of rw_bitmaps.c
    bad = [n for n in rs.events("S") if (T.last_field(n.ev["lhs"]) or ("", ""))[0] == "struct_ext2_filsys"]
    rep.ob("C17.d", site(rs, "no store to shared fs fields in thread code"), not bad,
           "read_bitmaps_range_start stores no field of struct_ext2_filsys: %s" % [b.where() for b in bad])
    th = prog.fn("read_bitmaps_thread", rbf)
    for n in calls_to(th, "read_bitmaps_range_start"):
        a = arg(n, 5)
        rep.ob("C17.d", site(th, "per-thread tail flags"), a is not None and (T.path(a) or "").endswith("rbt_tail_flags"),
               "tail_flags argument is the thread's own rbt_tail_flags: %s" % T.pp(a))
    joins = calls_to(rw_, "pthread_join")
    ends = calls_to(rw_, "read_bitmaps_range_end")
    rep.floor("C17.d thread anchors", min(len(creates), len(joins), len(ends)), 1)
    # the join loop lies between thread creation and the use of the result, and joining is
    # conditional on nothing but "this slot has a thread"
    jl = None
    best = None
    for bid, b in rw_.blocks.items():
        t = b.get("t")
        if t and t.get("k") == "for" and joins:
            r = rw_.reach([rw_.node(b["s"][0], 0)], avoid=[rw_.block_end(bid)])
            # the join is in the loop's body and can come back to the loop head
            if joins[0] in r and rw_.node(bid, 0) in rw_.reach(rw_.after(joins[0])):
                if best is None or len(r) < best:
                    best, jl = len(r), bid
    if jl is None:
        rep.ob("C17.d", site(rw_, "threads joined before range_end"), False, "no loop containing pthread_join found")
    else:
        for c in creates:
            for e in ends:
                r = rw_.reach(rw_.after(c), avoid=[rw_.node(jl, 0)])
                rep.ob("C17.d", site(rw_, "threads joined before range_end"), e not in r,
                       "every path from pthread_create to read_bitmaps_range_end passes the join loop")
        for j in joins:
            inner = []
            body_nodes = rw_.reach([rw_.node(rw_.blocks[jl]["s"][0], 0)], avoid=[rw_.block_end(jl)])
            for (bid2, truth, atom) in rw_.control_literals(j):
                if rw_.block_end(bid2) in body_nodes and bid2 != jl:
                    inner.append((truth, atom))
            ok = all(t and ((T.path(a) or "").startswith("thread_ids") or "num_threads" in T.vars_in(a))
                     for t, a in inner)
            rep.ob("C17.d", site(rw_, "join conditional only on thread existence"), ok,
                   "inside the join loop pthread_join is guarded only by %s" % [("" if t else "!") + T.pp(a) for t, a in inner])
    # cache switched off before threads start and on again after the joins
    offs = [n for n in rw_.call_nodes() if is_call(n, "io_channel_set_options", "struct_io_manager.set_option")
            and any("cache=off" in (x.get("v") or "") for x in T.walk(arg(n, 1) or {}))]
    ons = [n for n in rw_.call_nodes() if is_call(n, "io_channel_set_options", "struct_io_manager.set_option")
           and any("cache=on" in (x.get("v") or "") for x in T.walk(arg(n, 1) or {}))]
    if offs or ons:
        for c in creates:
            rep.ob("C17.d", site(rw_, "cache off before pthread_create"), rw_.dominated_by(c, offs),
                   "io cache disabled before threads are started")
        for j in joins:
            r = rw_.reach(rw_.after(j), avoid=set(ons))
            rep.ob("C17.d", site(rw_, "cache on after joins"), rw_.exit_node() not in r or not ons == [] and
                   all(rw_.exit_node() not in rw_.reach(rw_.after(j), avoid=set(ons)) for j in joins[-1:]),
                   "io cache re-enabled on every path after the joins")
    else:
        rep.note("ext2fs_rw_bitmaps does not toggle the io cache in this tree")



def flush_durability(prog, rep, rule, tag):
    """unix_flush: returns 0 only after the cache was written out and fsync'ed; errors returned.
    Shared with C04.b (sync_blockdev -> io_channel_flush -> this slot)."""
    ufns = {f.name: f for f in prog.fns_in_file(UFILE)}
    impl = [nm for nm in sorted(prog.slot_names("struct_io_manager", "flush")) if nm in ufns]
    if not impl:
        raise Broken("unix flush slot vanished")
    uf = ufns[impl[0]]
    fsyncs = calls_to(uf, "fsync", "fdatasync")
    flushes = calls_to(uf, "flush_cached_blocks")
    rep.floor("%s unix_flush anchors" % rule, len(flushes), 1)
    ex = absint.Explorer(uf, prog)

    def seen(node, env, flags):
        if node in fsyncs:
            return flags | {"fsync"}
        if node in flushes:
            return flags | {"flush"}
        return flags
    terms = ex.run([uf.entry_node()], on_node=seen)
    bad = []
    for (node, env, flags, st) in terms:
        if node.ev and node.ev["e"] == "R":
            v = ex.eval(node.ev.get("x"), env)
            if not absint._nz(v) and not ({"fsync", "flush"} <= flags):
                bad.append((node.line, v, sorted(flags), ex.trace(st)))
    rep.ob(rule, site(uf, "zero return only after flush_cached_blocks and fsync" + tag), not bad,
           "every path on which unix_flush may return 0 passed flush_cached_blocks and fsync", bad[:2] or None)
    for f in flushes:
        r = uf.reach(uf.after(f))
        rep.ob(rule, site(uf, "cache written before fsync" + tag), all(s in r for s in fsyncs) and
               not any(f in uf.reach(uf.after(s)) for s in fsyncs),
               "flush_cached_blocks precedes fsync")
        badr = failure_returns(uf, prog, f)
        rep.ob(rule, site(uf, "flush_cached_blocks failure returned" + tag), not badr, "error reaches the return value",
               [(b[0].line, str(b[1]), b[2]) for b in badr[:2]] or None)
    for s in fsyncs:
        lits_after = [b for b in uf.blocks if uf.literal(b) and any(c.get("id") == s.ev["x"].get("id")
                      for c in T.calls(uf.literal(b)[0]))]
        rep.ob(rule, site(uf, "fsync result tested" + tag), bool(lits_after), "fsync's result controls a branch")

def _cn(n):
    return T.call_names(n.ev["x"])[0] if T.call_names(n.ev["x"]) else "?"


def _occ(fn, node, key):
    """ordinal of this call among calls with the same name in fn (by line)"""
    same = sorted([n for n in fn.call_nodes() if key in T.call_names(n.ev["x"])], key=lambda n: (n.line, n.bid, n.idx))
    return same.index(node)


def _result_used(fn, n):
    """the call's value is stored, compared, returned or passed on (not an expression statement, not (void))"""
    cid = n.ev["x"].get("id")
    for m in fn.nodes():
        if m is n:
            continue
        trees = []
        if m.ev:
            if m.ev["e"] == "S":
                trees.append(m.ev.get("rhs"))
            elif m.ev["e"] == "R":
                trees.append(m.ev.get("x"))
            elif m.ev["e"] == "C":
                trees.extend(m.ev["x"].get("a", []))
        else:
            t = fn.blocks[m.bid].get("t")
            if t:
                trees.append(t.get("c"))
        for tr in trees:
            if isinstance(tr, dict) and any(x.get("k") == "c" and x.get("id") == cid for x in T.walk(tr)):
                return True
    return False


def _handler_result(fn, bad):
    """the offending return yields the result of channel->read_error / write_error (accepted idiom)"""
    node = bad[0]
    x = T.strip(node.ev.get("x")) if node.ev else None
    if not isinstance(x, dict) or x.get("k") != "v":
        return False
    for s in fn.events("S"):
        if T.path(s.ev["lhs"]) == x["n"]:
            for c in T.calls(s.ev.get("rhs") or {}):
                sl = c.get("slot") or {}
                if sl.get("f") in ("read_error", "write_error"):
                    # must be able to reach this return
                    if node in fn.reach([s]):
                        return True
    return False
