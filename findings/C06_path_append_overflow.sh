#!/bin/sh
# replay: mke2fs -d on a tree with a 254-character top-level name must not
# write past the path buffer it keeps for messages
T=${1:-/repo}; D=$(mktemp -d); cd $D || exit 2
mkdir src; N=$(python3 -c "print('n'*254)"); echo x > src/$N; mkdir src/d; echo y > src/d/f
MKE2FS_CONFIG=/dev/null valgrind -q --error-exitcode=9 $T/misc/mke2fs -q -F -t ext4 -d src img 8M >out 2>&1; rc=$?
grep -m1 "Invalid write" out
echo "mke2fs -d under valgrind: exit $rc (9 = invalid memory access)"
cd /; rm -rf "$D"; [ $rc = 0 ]
