/* LD_PRELOAD shim: the journal "device" is the regular file named by JDEV
 * (the sandbox has no block devices to give to libblkid).  A plain name
 * resolves to itself, as with the real library. */
#include <stdlib.h>
#include <string.h>
char *blkid_get_devname(void *cache, const char *token, const char *value)
{
	(void) cache;
	if (!value)
		return token ? strdup(token) : 0;
	return getenv("JDEV") ? strdup(getenv("JDEV")) : 0;
}
