#!/usr/bin/env python3
# craft a two-block "indexed" directory whose root claims 8 index levels and
# whose every index entry points at block 1 (itself an index node pointing at 1)
import struct, sys
img, b0, b1, bs = sys.argv[1], int(sys.argv[2]), int(sys.argv[3]), 1024
def dirent(ino, rec_len, name):
    return struct.pack('<IHBB', ino, rec_len, len(name), 2) + name
blk0 = bytearray(bs)
d = dirent(11, 12, b'.') + b'\0' * 3
blk0[0:len(d)] = d
d = dirent(2, bs - 12, b'..')
blk0[12:12 + len(d)] = d
# dx_root_info at 24: reserved_zero, hash_version, info_length, indirect_levels, unused_flags
blk0[24:32] = struct.pack('<IBBBB', 0, 1, 8, 8, 0)
limit = (bs - 32) // 8
blk0[32:36] = struct.pack('<HH', limit, 100)
blk0[36:40] = struct.pack('<I', 1)
for i in range(1, 100):
    blk0[32 + 8 * i:40 + 8 * i] = struct.pack('<II', i * 0x1000, 1)
blk1 = bytearray(bs)
blk1[0:8] = struct.pack('<IHBB', 0, bs, 0, 0)
limit = (bs - 8) // 8
blk1[8:12] = struct.pack('<HH', limit, limit)
blk1[12:16] = struct.pack('<I', 1)
for i in range(1, limit):
    blk1[8 + 8 * i:16 + 8 * i] = struct.pack('<II', i * 0x100, 1)
with open(img, 'r+b') as f:
    f.seek(b0 * bs); f.write(blk0)
    f.seek(b1 * bs); f.write(blk1)
