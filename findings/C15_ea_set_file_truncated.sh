#!/bin/sh
# replay: debugfs "ea_set -f file" stores the file's content as the value,
# whatever its length up to the format limit (not its first block only)
T=${1:-/repo}; D=$(mktemp -d); cd $D || exit 2
MKE2FS_CONFIG=/dev/null $T/misc/mke2fs -q -F -t ext4 -O ext_attr,ea_inode -I 256 -b 1024 img 8M >/dev/null 2>&1 || exit 2
echo hi > f; $T/debugfs/debugfs -w -R "write f f" img >/dev/null 2>&1
head -c 3000 /dev/zero | tr '\0' v > val
$T/debugfs/debugfs -w -R "ea_set -f val f user.big" img >/dev/null 2>&1
$T/debugfs/debugfs -R "ea_get -f back f user.big" img >/dev/null 2>&1
echo "value file: $(wc -c < val) bytes; read back: $(wc -c < back 2>/dev/null || echo 0) bytes"
cmp -s val back; rc=$?
cd /; rm -rf "$D"; exit $rc
