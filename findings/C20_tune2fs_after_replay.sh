#!/bin/sh
# replay: tune2fs on a file system with a dirty journal must also update the backup superblocks
T=${1:-/repo}; D=$(mktemp -d); cd $D || exit 2
export MKE2FS_CONFIG=$T/tests/mke2fs.conf
$T/misc/mke2fs -q -F -t ext3 -I 128 -O ^flex_bg -b 1024 img 20000 2>/dev/null || exit 2
echo hello > f1; printf 'write f1 f1\n' | $T/debugfs/debugfs -w -f - img >/dev/null 2>&1
$T/e2fsck/e2fsck -fy img >/dev/null 2>&1
printf 'jo\njw -b 333 /dev/zero\njc\n' | $T/debugfs/debugfs -w -f - img >/dev/null 2>&1
$T/misc/tune2fs -I 256 img >/dev/null 2>&1
p=$($T/misc/dumpe2fs -h img 2>/dev/null | awk '/Inode size/{print $3}')
b=$($T/misc/dumpe2fs -o superblock=8193 -o blocksize=1024 -h img 2>/dev/null | awk '/Inode size/{print $3}')
echo "primary inode size $p, backup inode size $b"
cd /; rm -rf "$D"; [ "$p" = 256 ] && [ "$b" = 256 ]
