#!/bin/sh
# replay: debugfs mknod with a path must create the node in that directory, and must not create a duplicate name
T=${1:-/repo}; D=$(mktemp -d); cd $D || exit 2
MKE2FS_CONFIG=$T/misc/mke2fs.conf $T/misc/mke2fs -q -F -t ext4 img 4M >/dev/null 2>&1 || exit 2
printf 'mkdir dd\nmknod dd/b p\nmknod a p\nmknod a p\n' | $T/debugfs/debugfs -w -f - img >/dev/null 2>&1
inb=$($T/debugfs/debugfs -R "ls /dd" img 2>/dev/null | grep -c " b ")
na=$($T/debugfs/debugfs -R "ls -l /" img 2>/dev/null | grep -c " a$")
$T/e2fsck/e2fsck -fn img >/dev/null 2>&1; rc=$?
echo "b listed in /dd: $inb; entries named a in /: $na; e2fsck -fn exit $rc"
cd /; rm -rf "$D"; [ "$inb" = 1 ] && [ "$na" = 1 ] && [ $rc -eq 0 ]
