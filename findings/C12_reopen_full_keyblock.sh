#!/bin/sh
# replay: a second recording run on an undo file whose key block is exactly full (63 keys at 1k) must still undo completely
T=${1:-/repo}; D=$(mktemp -d); cd $D || exit 2
export MKE2FS_CONFIG=$T/misc/mke2fs.conf
$T/misc/mke2fs -q -F -b 1024 -O ^has_journal img 8M || exit 2
cp img orig.img
{ i=0; while [ $i -lt 63 ]; do echo "zap_block -p 0x55 $((3000+2*i))"; i=$((i+1)); done; } > cmds
printf 'zap_block -p 0x66 5000\nzap_block -p 0x66 5002\n' > cmds2
$T/debugfs/debugfs -w -z u.undo -f cmds img >/dev/null 2>&1
if command -v valgrind >/dev/null; then
  n=$(valgrind -q $T/debugfs/debugfs -w -z u.undo -f cmds2 img 2>&1 | grep -c "Invalid write"); echo "invalid writes: $n"
else $T/debugfs/debugfs -w -z u.undo -f cmds2 img >/dev/null 2>&1; n=0; fi
$T/misc/e2undo u.undo img 2>&1 | tail -1
if cmp -s img orig.img && [ "$n" = 0 ]; then echo "OK: restored"; rc=0; else echo "FAIL: not restored"; rc=1; fi
cd /; rm -rf "$D"; exit $rc
