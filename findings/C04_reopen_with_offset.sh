#!/bin/sh
# replay: a file system inside a larger file (img?offset=N) that needs
# recovery: e2fsck replays the journal and goes on, it does not fail at the
# re-open run after run
T=${1:-/repo}; D=$(mktemp -d); cd $D || exit 2
MKE2FS_CONFIG=/dev/null $T/misc/mke2fs -q -F -t ext4 -j -b 1024 fs.img 8M >/dev/null 2>&1 || exit 2
head -c 1024 /dev/zero | tr '\0' p > pat
printf 'jo\njw -b 5000 pat\njc\n' | $T/debugfs/debugfs -w fs.img >/dev/null 2>&1
{ head -c 65536 /dev/zero; cat fs.img; } > disk.img
$T/e2fsck/e2fsck -fy "disk.img?offset=65536" >out1 2>&1; a=$?
$T/e2fsck/e2fsck -fy "disk.img?offset=65536" >out2 2>&1; b=$?
echo "e2fsck on disk.img?offset=65536 (needs recovery): exit $a, again: exit $b"; grep -m1 "re-open\|Bad magic" out1
cd /; rm -rf "$D"; [ $a -le 1 ] && [ $b = 0 ]
