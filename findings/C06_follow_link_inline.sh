#!/bin/sh
# replay: a path lookup through an inline-data symlink whose i_size is smaller
# than its inline area must not write past the buffer it allocates
T=${1:-/repo}; D=$(mktemp -d); cd $D || exit 2
MKE2FS_CONFIG=/dev/null $T/misc/mke2fs -q -F -t ext4 -b 1024 -I 1024 -O inline_data,^has_journal,^metadata_csum img 4M >/dev/null 2>&1 || exit 2
L=$(python3 -c "print('a/'*400)")
$T/debugfs/debugfs -w -R "symlink /l $L" img >/dev/null 2>&1
$T/debugfs/debugfs -w -R "sif /l size 60" img >/dev/null 2>&1
valgrind -q --error-exitcode=9 $T/debugfs/debugfs -R "stat /l/x" img >out 2>&1; rc=$?
grep -m1 "Invalid write" out
echo "debugfs stat /l/x under valgrind: exit $rc (9 = invalid memory access)"
cd /; rm -rf "$D"; [ $rc != 9 ] && [ $rc -lt 128 ]
