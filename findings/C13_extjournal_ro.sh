#!/bin/sh
# Replay of the C13 defect: `e2fsck -n` with an external journal whose superblock has s_errno
# set modifies the journal device.  Exit 0 = device unchanged (fixed), exit 1 = modified.
# usage: C13_extjournal_ro.sh [repo-root]   (uses the built binaries of that tree)
R=${1:-/repo}
D=$(mktemp -d /tmp/c13rep.XXXXXX)
trap 'rm -rf "$D"' EXIT
export MKE2FS_CONFIG=$R/tests/mke2fs.conf E2FSCK_CONFIG=/dev/null
U=1db3f677-6832-4adb-bafc-8e4059c30a34
dd if=/dev/zero of=$D/j.img bs=1k count=8192 2>/dev/null
dd if=/dev/zero of=$D/f.img bs=1k count=16384 2>/dev/null
$R/misc/mke2fs -q -F -o Linux -b 1024 -O journal_dev -T ext4 -U $U $D/j.img >/dev/null 2>&1 || exit 3
$R/misc/mke2fs -q -F -o Linux -b 1024 -O ^has_journal -T ext4 $D/f.img >/dev/null 2>&1 || exit 3
$R/debugfs/debugfs -w -R "feature has_journal" $D/f.img >/dev/null 2>&1
$R/debugfs/debugfs -w -R "ssv journal_dev 0x9999" $D/f.img >/dev/null 2>&1
$R/debugfs/debugfs -w -R "ssv journal_uuid $U" $D/f.img >/dev/null 2>&1
$R/e2fsck/e2fsck -fy -j $D/j.img $D/f.img >/dev/null 2>&1
# journal superblock is block 2 (1k blocks) of j.img; s_errno at offset 32, big-endian -5
printf '\377\377\377\373' | dd of=$D/j.img bs=1 seek=$((2048+32)) conv=notrunc 2>/dev/null
S1=$(sha256sum < $D/j.img); F1=$(sha256sum < $D/f.img)
$R/e2fsck/e2fsck -fn -j $D/j.img $D/f.img > $D/out 2>&1
S2=$(sha256sum < $D/j.img); F2=$(sha256sum < $D/f.img)
if [ "$S1" != "$S2" ] || [ "$F1" != "$F2" ]; then
  echo "DEFECT: e2fsck -n modified the journal device or filesystem"; exit 1
fi
echo "ok: e2fsck -n left both images unchanged"; exit 0
