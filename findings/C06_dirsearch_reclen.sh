#!/bin/sh
# replay: debugfs dirsearch on a directory block with rec_len 0 must terminate
T=${1:-/repo}; D=$(mktemp -d); cd $D || exit 2
MKE2FS_CONFIG=/dev/null $T/misc/mke2fs -q -F -t ext2 -b 1024 img 4M >/dev/null 2>&1 || exit 2
B=$($T/debugfs/debugfs -R "bmap / 0" img 2>/dev/null)
# rec_len of the first entry ('.') is at offset 4 of the block
printf '\000\000' | dd of=img bs=1 seek=$((B*1024+4)) conv=notrunc 2>/dev/null
timeout -s KILL 10 $T/debugfs/debugfs -R "dirsearch / nosuchname" img >/dev/null 2>&1; rc=$?
echo "debugfs dirsearch on rec_len 0: exit $rc (137 = killed after 10 s)"
cd /; rm -rf "$D"; [ $rc -lt 128 ]
