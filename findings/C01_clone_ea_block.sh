#!/bin/sh
# replay: an EA block that is also claimed as a data block of another file is
# cloned by pass 1B-1D; the repaired file system must then check clean
T=${1:-/repo}; D=$(mktemp -d); cd $D || exit 2
MKE2FS_CONFIG=/dev/null $T/misc/mke2fs -q -F -t ext4 -O ext_attr,metadata_csum,^has_journal,^extent -I 128 -b 1024 img 4M >/dev/null 2>&1 || exit 2
echo hello > f; head -c 3000 /dev/zero | tr '\0' x > g
$T/debugfs/debugfs -w -R "write f a" img >/dev/null 2>&1; $T/debugfs/debugfs -w -R "write g b" img >/dev/null 2>&1
$T/debugfs/debugfs -w -R "ea_set a user.x 0123456789012345678901234567890123456789" img >/dev/null 2>&1
EA=$($T/debugfs/debugfs -R "stat a" img 2>/dev/null | sed -n 's/.*File ACL: \([0-9]*\).*/\1/p')
[ -n "$EA" ] && [ "$EA" != 0 ] || exit 2
$T/debugfs/debugfs -w -R "sif b block[1] $EA" img >/dev/null 2>&1
$T/e2fsck/e2fsck -fy img >/dev/null 2>&1; r1=$?
$T/e2fsck/e2fsck -fn img >out2 2>&1; r2=$?
echo "e2fsck -fy: exit $r1; second run (-fn): exit $r2"; grep -i "checksum\|differences" out2
v=$($T/debugfs/debugfs -R "ea_get a user.x" img 2>/dev/null | grep -c 0123456789012345678901234567890123456789)
echo "attribute of /a still readable: $v"
cd /; rm -rf "$D"; [ $r2 = 0 ] && [ "$v" = 1 ]
