#!/bin/sh
# replay: punching a range of a block-mapped file releases exactly that range
#  (a) a range that straddles the direct and the indirect blocks, (b) a range inside the second indirect block of the
#  double-indirect tree
T=${1:-/repo}; D=$(mktemp -d); cd $D || exit 2
MKE2FS_CONFIG=/dev/null $T/misc/mke2fs -q -F -t ext2 -b 1024 img 8M >/dev/null 2>&1 || exit 2
head -c $((700*1024)) /dev/urandom > src
printf 'write src f\nwrite src g\n' | $T/debugfs/debugfs -w -f - img >/dev/null 2>&1
mapped() { # file first last -> number of logical blocks in [first,last] that are still mapped
  n=0; i=$2; while [ $i -le $3 ]; do b=$($T/debugfs/debugfs -R "bmap $1 $i" img 2>/dev/null); [ "$b" != 0 ] && [ -n "$b" ] && n=$((n+1)); i=$((i+1)); done; echo $n; }
$T/debugfs/debugfs -w -R "punch f 8 15" img >/dev/null 2>&1
a_in=$(mapped f 8 15); a_out=$(mapped f 16 30)
$T/debugfs/debugfs -w -R "punch g 534 544" img >/dev/null 2>&1
b_in=$(mapped g 534 544); b_out=$(mapped g 545 699)
$T/e2fsck/e2fsck -fn img >/dev/null 2>&1; rc=$?
echo "punch f 8..15: still mapped inside $a_in (want 0), after it $a_out (want 15)"
echo "punch g 534..544: still mapped inside $b_in (want 0), after it $b_out (want 155); e2fsck -fn exit $rc"
cd /; rm -rf "$D"; [ "$a_in" = 0 ] && [ "$a_out" = 15 ] && [ "$b_in" = 0 ] && [ "$b_out" = 155 ] && [ $rc -eq 0 ]
