#include <stdio.h>
#include <string.h>
#include "ext2fs/ext2fs.h"
/* set_range(start, n, bits) assigns the range: both 64-bit backends must agree afterwards */
int main(int argc, char **argv)
{
	ext2_filsys fs; errcode_t r; int type, bad = 0; int res[3];
	r = ext2fs_open(argv[1], EXT2_FLAG_64BITS, 0, 0, unix_io_manager, &fs);
	if (r) return 2;
	for (type = EXT2FS_BMAP64_BITARRAY; type <= EXT2FS_BMAP64_RBTREE; type++) {
		ext2fs_block_bitmap a; unsigned char zero[1] = { 0 };
		fs->default_bitmap_type = type;
		if (ext2fs_allocate_block_bitmap(fs, "a", &a)) return 2;
		ext2fs_mark_block_bitmap2(a, 10);
		ext2fs_set_block_bitmap_range2(a, 8, 8, zero);
		res[type] = ext2fs_test_block_bitmap2(a, 10);
		printf("backend %d: bit 10 after set_range(8, 8, zeros) = %d\n", type, res[type]);
		if (res[type]) bad = 1;
		ext2fs_free_block_bitmap(a);
	}
	ext2fs_close_free(&fs);
	return bad;
}
