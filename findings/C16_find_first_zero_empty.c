/* find_first_zero on a bitmap with nothing set: every backend answers "start" */
#include <stdio.h>
#include <ext2fs/ext2fs.h>
int main(void)
{
	struct ext2_super_block sb; ext2_filsys fs; ext2fs_block_bitmap bm; int t, bad = 0; blk64_t out; errcode_t e;
	memset(&sb, 0, sizeof(sb));
	ext2fs_blocks_count_set(&sb, 20000); sb.s_rev_level = 1;
	if (ext2fs_initialize("img", EXT2_FLAG_64BITS, &sb, unix_io_manager, &fs)) return 2;
	for (t = 0; t < 2; t++) {
		fs->default_bitmap_type = t ? EXT2FS_BMAP64_RBTREE : EXT2FS_BMAP64_BITARRAY;
		if (ext2fs_allocate_block_bitmap(fs, "b", &bm)) return 2;
		out = 0;
		e = ext2fs_find_first_zero_block_bitmap2(bm, 100, 200, &out);
		printf("%s: empty bitmap, find_first_zero(100..200) -> error %ld, bit %llu\n", t ? "rbtree  " : "bitarray", (long) e, (unsigned long long) out);
		if (e || out != 100) bad = 1;
	}
	return bad;
}
