#!/bin/sh
# replay: debugfs htree_dump on a leaf whose last entry ends 4 bytes before the
# end of the block must not read an entry header beyond the block
T=${1:-/repo}; D=$(mktemp -d); cd $D || exit 2
MKE2FS_CONFIG=/dev/null $T/misc/mke2fs -q -F -t ext4 -b 1024 -O ^has_journal,^metadata_csum img 4M >/dev/null 2>&1 || exit 2
{ echo "mkdir /d"; for i in $(seq 1 150); do echo "write /dev/null /d/file_with_long_name_$i"; done; } > cmds
$T/debugfs/debugfs -w -f cmds img >/dev/null 2>&1; $T/e2fsck/e2fsck -fyD img >/dev/null 2>&1
B=$($T/debugfs/debugfs -R "bmap /d 1" img 2>/dev/null)
python3 -c "import struct;f=open('img','r+b');f.seek($B*1024+4);f.write(struct.pack('<H',1020))"
valgrind -q --error-exitcode=9 $T/debugfs/debugfs -R "htree_dump /d" img >out 2>&1; rc=$?
grep -m1 "Invalid read" out
echo "debugfs htree_dump under valgrind: exit $rc (9 = invalid memory access)"
cd /; rm -rf "$D"; [ $rc != 9 ] && [ $rc -lt 128 ]
