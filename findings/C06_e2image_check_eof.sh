#!/bin/sh
# replay: e2image -c compares each block with what the destination already
# holds; a destination shorter than the source (a new file) must not hang it
T=${1:-/repo}; D=$(mktemp -d); cd $D || exit 2
MKE2FS_CONFIG=/dev/null $T/misc/mke2fs -q -F -t ext3 -b 1024 fs.img 8192 >/dev/null 2>&1 || exit 2
timeout -s KILL 20 $T/misc/e2image -rac fs.img new.raw >/dev/null 2>&1; rc=$?
echo "e2image -rac onto a new file: exit $rc (137 = killed after 20 s)"
if [ $rc = 0 ]; then
	$T/e2fsck/e2fsck -fn new.raw >/dev/null 2>&1; f=$?; echo "e2fsck -fn of the image: exit $f"; [ $f = 0 ] || rc=1
	# second run onto the now complete image: nothing differs, nothing hangs
	timeout -s KILL 20 $T/misc/e2image -rac fs.img new.raw >/dev/null 2>&1 || rc=1
	cmp -s fs.img new.raw; echo "image equals source: cmp exit $?"
fi
cd /; rm -rf "$D"; [ $rc = 0 ]
