#!/bin/sh
# replay: a shrink that renumbers the project quota inode (or the orphan file)
# takes the superblock's reference along; the result checks clean
T=${1:-/repo}; D=$(mktemp -d); cd $D || exit 2
echo host > hostname
mk() {
	MKE2FS_CONFIG=/dev/null $T/misc/mke2fs -q -F -b 1024 -I 256 -N 96 -O extent,metadata_csum,^resize_inode$2 $3 $1 24576 >/dev/null 2>&1 || exit 2
	for i in $(seq 1 53); do echo "write hostname f$i"; done | $T/debugfs/debugfs -w $1 >/dev/null 2>&1
}
mk q.img "" ""
$T/misc/tune2fs -O project -Q prjquota q.img >/dev/null 2>&1
for i in $(seq 25 50); do echo "rm f$i"; done | $T/debugfs/debugfs -w q.img >/dev/null 2>&1
$T/e2fsck/e2fsck -fy q.img >/dev/null 2>&1
before=$($T/misc/dumpe2fs -h q.img 2>/dev/null | sed -n 's/^Project quota inode: *//p')
$T/resize/resize2fs q.img 16384 >/dev/null 2>&1; r=$?
$T/e2fsck/e2fsck -fn q.img >fsck 2>&1; f=$?
after=$($T/misc/dumpe2fs -h q.img 2>/dev/null | sed -n 's/^Project quota inode: *//p')
echo "project quota inode $before -> $after (inodes now $($T/misc/dumpe2fs -h q.img 2>/dev/null | sed -n 's/^Inode count: *//p')); resize2fs exit $r; e2fsck -fn exit $f"; grep -m2 "quota inode\|Unattached" fsck
mk o.img ",has_journal" "-J size=1"
$T/misc/tune2fs -O orphan_file o.img >/dev/null 2>&1
for i in $(seq 25 50); do echo "rm f$i"; done | $T/debugfs/debugfs -w o.img >/dev/null 2>&1
$T/e2fsck/e2fsck -fy o.img >/dev/null 2>&1
$T/resize/resize2fs o.img 16384 >out2 2>&1; r2=$?
$T/e2fsck/e2fsck -fn o.img >/dev/null 2>&1; f2=$?
echo "same with an orphan file: resize2fs exit $r2; e2fsck -fn exit $f2"
cd /; rm -rf "$D"; [ $r = 0 ] && [ $f = 0 ] && [ $r2 = 0 ] && [ $f2 = 0 ]
