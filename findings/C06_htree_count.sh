#!/bin/sh
# replay: debugfs "htree" on a directory whose dx count is 0xffff must not crash
T=${1:-/repo}; D=$(mktemp -d); cd $D || exit 2
mkdir src; (cd src; i=1; while [ $i -le 300 ]; do : > file_with_quite_a_long_name_$i; i=$((i+1)); done)
MKE2FS_CONFIG=/dev/null $T/misc/mke2fs -q -F -O ^metadata_csum -b 1024 -d src img 4096 >/dev/null 2>&1 || exit 2
$T/e2fsck/e2fsck -fyD img >/dev/null 2>&1
B=$($T/debugfs/debugfs -R "bmap / 0" img 2>/dev/null)
printf '\377\377' | dd of=img bs=1 seek=$((B*1024+0x22)) conv=notrunc 2>/dev/null
$T/debugfs/debugfs -R "htree /" img >/dev/null 2>&1; rc=$?
echo "debugfs htree on dx count 0xffff: exit $rc"
cd /; rm -rf "$D"; [ $rc -lt 128 ]
