#!/bin/sh
# replay: with a file system at an offset inside the image, e2undo must restore the superblock tune2fs changed
T=${1:-/repo}; D=$(mktemp -d); cd $D || exit 2
dd if=/dev/urandom of=img bs=1k count=2048 2>/dev/null
MKE2FS_CONFIG=/dev/null $T/misc/mke2fs -q -F -b 1024 -E offset=524288 img 512 >/dev/null 2>&1 || exit 2
A=$(sha256sum img | cut -d' ' -f1)
$T/misc/tune2fs -z u.undo -c 20 'img?offset=524288' >/dev/null 2>&1 || exit 2
$T/misc/e2undo u.undo img >/dev/null 2>&1; rc=$?
B=$(sha256sum img | cut -d' ' -f1)
echo "e2undo exit $rc; image restored: $([ "$A" = "$B" ] && echo yes || echo no)"
cd /; rm -rf "$D"; [ "$A" = "$B" ]
