#!/bin/sh
# replay: converting a qcow2 image back to raw must give the same bytes when
# the kernel completes write() calls only partially (as it may on any fd),
# and no write() may be handed bytes beyond the copy buffer
T=${1:-/repo}; H=$(cd "$(dirname "$0")" && pwd); D=$(mktemp -d); cd $D || exit 2
cc -shared -fPIC -o shim.so $H/C19_short_write_shim.c -ldl || exit 2
MKE2FS_CONFIG=/dev/null $T/misc/mke2fs -q -F -t ext4 -b 4096 fs.img 16M >/dev/null 2>&1 || exit 2
$T/misc/e2image -Q fs.img q.img >/dev/null 2>&1 || exit 2
$T/misc/e2image -r q.img full.raw >/dev/null 2>&1 || exit 2
LD_PRELOAD=$D/shim.so valgrind -q --error-exitcode=9 $T/misc/e2image -r q.img short.raw >vg.out 2>&1; rc=$?
grep -m2 "write(buf)\|qcow2_copy_data" vg.out
echo "e2image -r with short writes under valgrind: exit $rc (9 = a write() was handed bytes outside the buffer)"
cmp full.raw short.raw; c=$?
echo "raw image written with short writes equals the one written whole: cmp exit $c"
cd /; rm -rf "$D"; [ $rc = 0 ] && [ $c = 0 ]
