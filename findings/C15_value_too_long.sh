#!/bin/sh
# replay: a value that the library refuses to read must not be accepted by set
T=${1:-/repo}; H=$(cd "$(dirname "$0")" && pwd); D=$(mktemp -d); cd $D || exit 2
MKE2FS_CONFIG=/dev/null $T/misc/mke2fs -q -F -t ext4 -O ext_attr,ea_inode,^has_journal -I 256 -b 1024 img 8M >/dev/null 2>&1 || exit 2
echo hi > f; $T/debugfs/debugfs -w -R "write f f" img >/dev/null 2>&1
cc -I$T/lib -o t $H/C15_value_too_long.c $T/lib/libext2fs.a $T/lib/libcom_err.a -lpthread 2>cc.err || { cat cc.err; exit 2; }
./t img; rc=$?
cd /; rm -rf "$D"; exit $rc
