#!/bin/sh
# replay: "/name" given to a debugfs command while the current directory is not the root names an entry of the root
T=${1:-/repo}; D=$(mktemp -d); cd $D || exit 2
MKE2FS_CONFIG=$T/misc/mke2fs.conf $T/misc/mke2fs -q -F -t ext4 img 4M >/dev/null 2>&1 || exit 2
echo hi > x
printf 'mkdir d\nwrite x f\ncd d\nmkdir /g\nwrite x /h\nsymlink /s tgt\nrm /f\n' | $T/debugfs/debugfs -w -f - img >/dev/null 2>&1
root=$($T/debugfs/debugfs -R "ls /" img 2>/dev/null | tr -s ' ' '\n' | grep -c -x -e g -e h -e s)
ind=$($T/debugfs/debugfs -R "ls /d" img 2>/dev/null | tr -s ' ' '\n' | grep -c -x -e g -e h -e s)
fleft=$($T/debugfs/debugfs -R "ls /" img 2>/dev/null | tr -s ' ' '\n' | grep -c -x f)
$T/e2fsck/e2fsck -fn img >/dev/null 2>&1; rc=$?
echo "g,h,s in /: $root (want 3), in /d: $ind (want 0); /f still listed: $fleft (want 0); e2fsck -fn exit $rc"
cd /; rm -rf "$D"; [ "$root" = 3 ] && [ "$ind" = 0 ] && [ "$fleft" = 0 ] && [ $rc -eq 0 ]
