#!/bin/sh
# Replay of the C08 defect: a refused / no-op resize2fs request rewrites the primary superblock
# (determine_fs_stride() dirties the handle before the late refusals).  Exit 0 = image unchanged.
R=${1:-/repo}
D=$(mktemp -d /tmp/c08rep.XXXXXX); trap 'rm -rf "$D"' EXIT
export MKE2FS_CONFIG=$R/tests/mke2fs.conf E2FSCK_CONFIG=/dev/null
bad=0
dd if=/dev/zero of=$D/r.img bs=1k count=32768 2>/dev/null
$R/misc/mke2fs -q -F -t ext4 -O 64bit $D/r.img >/dev/null 2>&1 || exit 3
$R/e2fsck/e2fsck -fy $D/r.img >/dev/null 2>&1
cp $D/r.img $D/orig.img
sleep 1.1
$R/resize/resize2fs -b $D/r.img >$D/o1 2>&1     # "already 64-bit"
cmp -s $D/r.img $D/orig.img || { echo "DEFECT: 'resize2fs -b' on a 64-bit fs (nothing to do) modified the image:"; cmp -l $D/r.img $D/orig.img | head -3; bad=1; }
cp $D/orig.img $D/r.img
sleep 1.1
$R/resize/resize2fs $D/r.img 32M >$D/o2 2>&1    # "Nothing to do!"
cmp -s $D/r.img $D/orig.img || { echo "DEFECT: same-size resize2fs (Nothing to do) modified the image"; bad=1; }
cp $D/orig.img $D/r.img
sleep 1.1
$R/resize/resize2fs $D/r.img 64M >$D/o3 2>&1    # larger than the containing file? (file is extended: allowed) -> use stable_inodes shrink refusal instead
cp $D/orig.img $D/r.img
$R/debugfs/debugfs -w -R "feature stable_inodes" $D/r.img >/dev/null 2>&1
cp $D/r.img $D/orig2.img
sleep 1.1
$R/resize/resize2fs $D/r.img 16M >$D/o4 2>&1    # refused: stable_inodes shrink
cmp -s $D/r.img $D/orig2.img || { echo "DEFECT: refused shrink (stable_inodes) modified the image"; bad=1; }
[ $bad = 0 ] && echo "ok: refused and no-op requests left the image unchanged"
exit $bad
