#!/bin/sh
# replay: shrinking an inline-data file succeeds and the bytes cut off do not
# come back when the file is extended again (model: AAAAAAAAAA, 10 zeroes, BBBBB)
T=${1:-/repo}; H=$(cd "$(dirname "$0")" && pwd); D=$(mktemp -d); cd $D || exit 2
MKE2FS_CONFIG=/dev/null $T/misc/mke2fs -q -F -O extent,inline_data,metadata_csum,64bit -I 256 img 8M >/dev/null 2>&1 || exit 2
cc -I$T/lib -o t $H/C09_inline_truncate.c $T/lib/libext2fs.a $T/lib/libcom_err.a -lpthread 2>cc.err || { cat cc.err; exit 2; }
./t img; rc=$?
$T/e2fsck/e2fsck -fn img >/dev/null 2>&1; f=$?; echo "e2fsck -fn afterwards: exit $f"
cd /; rm -rf "$D"; [ $rc = 0 ] && [ $f = 0 ]
