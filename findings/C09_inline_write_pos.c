/* replay: overwriting part of an inline-data file at a non-zero position must change exactly those bytes
 * usage: C09_inline_write_pos <image with /small = "AAAAAAAAAA" inline> */
#include <stdio.h>
#include <string.h>
#include "ext2fs/ext2fs.h"
int main(int argc, char **argv)
{
	ext2_filsys fs; errcode_t r; ext2_ino_t ino; ext2_file_t f; unsigned int got = 0; char buf[64]; struct ext2_inode in;
	r = ext2fs_open(argv[1], EXT2_FLAG_RW | EXT2_FLAG_64BITS, 0, 0, unix_io_manager, &fs);
	if (r) { printf("open: %ld\n", (long) r); return 2; }
	ext2fs_read_bitmaps(fs);
	if (ext2fs_namei(fs, EXT2_ROOT_INO, EXT2_ROOT_INO, "small", &ino)) return 2;
	if (ext2fs_file_open(fs, ino, EXT2_FILE_WRITE, &f)) return 2;
	ext2fs_file_llseek(f, 4, EXT2_SEEK_SET, 0);
	r = ext2fs_file_write(f, "ZZZZ", 4, &got);
	printf("write of 4 bytes at position 4: ret %ld, reported %u\n", (long) r, got);
	ext2fs_file_close(f);
	if (ext2fs_file_open(fs, ino, 0, &f)) return 2;
	memset(buf, 0, sizeof(buf));
	ext2fs_file_read(f, buf, sizeof(buf) - 1, &got);
	ext2fs_file_close(f);
	ext2fs_read_inode(fs, ino, &in);
	printf("file now holds %u bytes: \"%s\" (want 10: \"AAAAZZZZAA\"), i_size %u\n", got, buf, in.i_size);
	ext2fs_close(fs);
	return (got == 10 && !strcmp(buf, "AAAAZZZZAA") && in.i_size == 10) ? 0 : 1;
}
