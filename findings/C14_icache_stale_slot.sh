#!/bin/sh
# Side observation (UNCHANGED tree): a read of an inode whose checksum does
# not verify overwrites the buffer of the next inode-cache slot but leaves the
# slot labelled with its previous owner, so a later ext2fs_read_inode() of
# that previous owner returns the bytes of the corrupted inode, with success.
# usage: side_stale_slot.sh /path/to/built/e2fsprogs   (exit 1 = reproduced; replay: pass = exit 0)
T=${1:?usage}; T=$(cd "$T" && pwd) || exit 2
D=$(mktemp -d) || exit 2
trap 'rm -rf "$D"' EXIT
MKE2FS_CONFIG=/dev/null; export MKE2FS_CONFIG
IMG=$D/fs.img
$T/misc/mke2fs -q -F -o Linux -b 1024 -I 256 -O metadata_csum,extent,64bit "$IMG" 4096 >/dev/null 2>&1 || exit 2
: >"$D/cmds"
for i in 1 2 3 4 5; do
	head -c $((i * 1000)) /dev/zero >"$D/f$i"
	echo "write $D/f$i f$i" >>"$D/cmds"
done
$T/debugfs/debugfs -w -f "$D/cmds" "$IMG" >/dev/null 2>&1 || exit 2
# f1..f5 are inodes 12..16 with sizes 1000..5000; corrupt inode 16 (i_mtime byte)
set -- $($T/debugfs/debugfs -R "imap <16>" "$IMG" 2>/dev/null |
	 sed -n 's/.*located at block \([0-9]*\), offset \(0x[0-9a-fA-F]*\).*/\1 \2/p')
pos=$(( $1 * 1024 + $2 + 16 ))
old=$(dd if="$IMG" bs=1 skip=$pos count=1 2>/dev/null | od -An -tu1 | tr -d ' ')
printf "$(printf '\\%03o' $(( old ^ 0x5a )))" | dd of="$IMG" bs=1 seek=$pos conv=notrunc 2>/dev/null
# fill the 4 cache slots with 12..15, then the failing read of 16 lands in
# the slot owned by 12; then ask for 12 again.
printf 'stat <12>\nstat <13>\nstat <14>\nstat <15>\nstat <16>\nstat <12>\n' >"$D/c2"
$T/debugfs/debugfs -f "$D/c2" "$IMG" 2>&1 | grep -i "^debugfs:\|Project.*Size:\|checksum does not" | sed 's/ *Project.*Size/ Size/'
sz=$($T/debugfs/debugfs -f "$D/c2" "$IMG" 2>/dev/null | sed -n 's/.*Project.*Size: \([0-9]*\).*/\1/p' | tail -1)
if [ "$sz" != 1000 ]; then
	echo "REPRODUCED: last 'stat <12>' reported size $sz (inode 16's data), expected 1000"
	exit 1
fi
echo "not reproduced (size $sz)"
exit 0
