#!/bin/sh
# replay: debugfs rm / rmdir free the inode only when the name was removed
# (through a symlinked directory, or with a trailing slash, the unlink fails)
T=${1:-/repo}; D=$(mktemp -d); cd $D || exit 2
MKE2FS_CONFIG=/dev/null $T/misc/mke2fs -q -F -t ext4 img 8M >/dev/null 2>&1 || exit 2
printf 'mkdir /d\nmknod /d/f p\nsymlink /s d\nmkdir /d/sub\nrm /s/f\nrmdir /d/sub/\n' | $T/debugfs/debugfs -w img >out 2>&1
$T/e2fsck/e2fsck -fn img >fsck 2>&1; f=$?
echo "after 'rm /s/f' (through a symlink) and 'rmdir /d/sub/': e2fsck -fn exit $f"; grep -m3 "deleted/unused\|unattached" fsck
cd /; rm -rf "$D"; [ $f = 0 ]
