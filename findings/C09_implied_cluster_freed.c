/*
 * side_bigalloc.c - side observation (unchanged tree): on a full bigalloc
 * filesystem, a write into an unmapped block of a cluster the file already
 * owns fails in ext2fs_extent_set_bmap() (no block for the node split), and
 * extent_bmap()'s error path then releases the cluster although the file's
 * other blocks still live in it.
 *
 * usage: side_bigalloc image     (image: bigalloc, extents, no journal)
 */
#include <stdio.h>
#include <stdlib.h>
#include <string.h>
#include "ext2fs/ext2_fs.h"
#include "ext2fs/ext2fs.h"

static ext2_filsys fs;

static void die(const char *what, errcode_t err)
{
	fprintf(stderr, "setup: %s: error %ld\n", what, (long) err);
	exit(2);
}

static ext2_ino_t new_file(const char *name)
{
	struct ext2_inode inode;
	ext2_extent_handle_t handle;
	ext2_ino_t ino;
	errcode_t err;

	err = ext2fs_new_inode(fs, EXT2_ROOT_INO, LINUX_S_IFREG | 0644, 0, &ino);
	if (err)
		die("new_inode", err);
	memset(&inode, 0, sizeof(inode));
	inode.i_mode = LINUX_S_IFREG | 0644;
	inode.i_links_count = 1;
	err = ext2fs_extent_open2(fs, ino, &inode, &handle);
	if (err)
		die("extent_open2", err);
	ext2fs_extent_free(handle);
	err = ext2fs_write_new_inode(fs, ino, &inode);
	if (err)
		die("write_new_inode", err);
	ext2fs_inode_alloc_stats2(fs, ino, +1, 0);
	err = ext2fs_link(fs, EXT2_ROOT_INO, name, ino, EXT2_FT_REG_FILE);
	if (err)
		die("link", err);
	return ino;
}

static errcode_t write_block(ext2_ino_t ino, blk64_t lblk, int c)
{
	ext2_file_t file;
	char *buf = malloc(fs->blocksize);
	unsigned int n;
	errcode_t err, err2;

	memset(buf, c, fs->blocksize);
	err = ext2fs_file_open(fs, ino, EXT2_FILE_WRITE, &file);
	if (err)
		die("file_open", err);
	err = ext2fs_file_llseek(file, lblk * fs->blocksize, EXT2_SEEK_SET, 0);
	if (!err)
		err = ext2fs_file_write(file, buf, fs->blocksize, &n);
	err2 = ext2fs_file_close(file);
	free(buf);
	return err ? err : err2;
}

int main(int argc, char **argv)
{
	ext2_ino_t f, g, h;
	ext2_file_t file;
	char *buf;
	unsigned int n, ratio, i;
	blk64_t p0, dummy;
	errcode_t err;
	int bad = 0;

	err = ext2fs_open(argv[1], EXT2_FLAG_RW | EXT2_FLAG_64BITS, 0, 0,
			  unix_io_manager, &fs);
	if (err)
		die("open", err);
	err = ext2fs_read_bitmaps(fs);
	if (err)
		die("read_bitmaps", err);
	ratio = EXT2FS_CLUSTER_RATIO(fs);
	buf = malloc(fs->blocksize);

	/* F: one block in each of four clusters: the root is full */
	f = new_file("F");
	for (i = 0; i < 4; i++) {
		err = write_block(f, (blk64_t) i * ratio, 'a' + i);
		if (err)
			die("write F", err);
	}
	err = ext2fs_bmap2(fs, f, NULL, NULL, 0, 0, NULL, &p0);
	if (err)
		die("bmap F", err);

	/* G takes all the rest */
	g = new_file("G");
	err = ext2fs_file_open(fs, g, EXT2_FILE_WRITE, &file);
	if (err)
		die("open G", err);
	memset(buf, 'G', fs->blocksize);
	while (!ext2fs_file_write(file, buf, fs->blocksize, &n) &&
	       n == fs->blocksize)
		;
	(void) ext2fs_file_close(file);
	if (ext2fs_new_block2(fs, 0, 0, &dummy) != EXT2_ET_BLOCK_ALLOC_FAIL)
		die("filesystem not full", 0);

	printf("F block 0 is at %llu, marked in use: %d\n",
	       (unsigned long long) p0,
	       ext2fs_test_block_bitmap2(fs->block_map, p0));
	/* block 5 of F: same cluster as block 0, needs a fifth extent */
	err = write_block(f, 5, 'X');
	printf("write of F block 5 on the full filesystem: %s\n",
	       err ? "refused" : "done");
	if (!ext2fs_test_block_bitmap2(fs->block_map, p0)) {
		printf("VIOLATION: cluster of F block 0 (%llu) is now free "
		       "in the bitmap while F still maps it\n",
		       (unsigned long long) p0);
		bad = 1;
	}
	/* another file now gets F's cluster */
	h = new_file("H");
	err = write_block(h, 0, 'H');
	printf("write of H block 0: %s\n", err ? "refused" : "done");
	err = ext2fs_file_open(fs, f, 0, &file);
	if (err)
		die("reopen F", err);
	err = ext2fs_file_read(file, buf, fs->blocksize, &n);
	ext2fs_file_close(file);
	if (err || n != fs->blocksize || buf[0] != 'a') {
		printf("VIOLATION: F block 0 now starts with '%c' "
		       "(written: 'a')\n", buf[0]);
		bad = 1;
	}
	ext2fs_close(fs);
	return bad;
}
