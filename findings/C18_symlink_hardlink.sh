#!/bin/sh
# replay: two names of one symlink in the source tree must be two names of
# one inode in the populated file system, as they are for regular files
T=${1:-/repo}; D=$(mktemp -d); cd $D || exit 2
mkdir src; ln -s target src/a; ln src/a src/b; echo x > src/f; ln src/f src/g
MKE2FS_CONFIG=/dev/null $T/misc/mke2fs -q -F -t ext4 -d src img 8M >/dev/null 2>&1 || exit 2
ino() { $T/debugfs/debugfs -R "stat /$1" img 2>/dev/null | sed -n 's/^Inode: \([0-9]*\).*/\1/p'; }
links() { $T/debugfs/debugfs -R "stat /$1" img 2>/dev/null | sed -n 's/.*Links: \([0-9]*\).*/\1/p'; }
echo "symlink a -> inode $(ino a) links $(links a); b -> inode $(ino b) links $(links b)"
echo "file    f -> inode $(ino f) links $(links f); g -> inode $(ino g) links $(links g)"
$T/e2fsck/e2fsck -fn img >/dev/null 2>&1; fsck=$?; echo "e2fsck -fn: exit $fsck"
rc=0; [ "$(ino a)" = "$(ino b)" ] && [ "$(links a)" = 2 ] && [ $fsck = 0 ] || rc=1
cd /; rm -rf "$D"; exit $rc
