# usage: mkrevoke.py IMG BLOCKSIZE FIRST_JOURNAL_BLOCK
# Fill every block of a (contiguous) internal journal with revoke blocks
# that all carry the sequence number the journal superblock expects, and
# point s_start at the first of them.
import struct, sys
img, bs, jb = sys.argv[1], int(sys.argv[2]), int(sys.argv[3])
f = open(img, 'r+b')
f.seek(jb * bs)
jsb = f.read(1024)
magic, btype, seq0, jbs, maxlen, first, seq, start = struct.unpack('>8I', jsb[:32])
assert magic == 0xC03B3998 and jbs == bs
rev = struct.pack('>4I', 0xC03B3998, 5, seq, 16).ljust(bs, b'\0')
for i in range(first, maxlen):
    f.seek((jb + i) * bs)
    f.write(rev)
f.seek(jb * bs + 28)
f.write(struct.pack('>I', first))
f.close()
print("journal: maxlen", maxlen, "first", first, "sequence", seq)
