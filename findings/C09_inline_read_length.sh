#!/bin/sh
# replay: a 6-byte inline-data file must read back as 6 bytes
T=${1:-/repo}; D=$(mktemp -d); cd $D || exit 2
export MKE2FS_CONFIG=$T/misc/mke2fs.conf
mkdir src; echo hello > src/tiny
$T/misc/mke2fs -q -F -t ext4 -O inline_data -b 1024 -d src img 8M || exit 2
n=$($T/debugfs/debugfs -R "cat /tiny" img 2>/dev/null | wc -c)
echo "read $n bytes (expected 6)"
cd /; rm -rf "$D"; [ "$n" = 6 ]
