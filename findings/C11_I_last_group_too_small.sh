#!/bin/sh
# replay: tune2fs -I on a file system whose last group cannot hold the larger
# inode table refuses and leaves the file system as it was
T=${1:-/repo}; D=$(mktemp -d); cd $D || exit 2
MKE2FS_CONFIG=/dev/null $T/misc/mke2fs -q -F -O ^flex_bg,^resize_inode,extent,sparse_super,filetype -I 128 -b 1024 -N 6000 b.img $((8192*2+1+400)) >/dev/null 2>&1 || exit 2
echo hello > f; $T/debugfs/debugfs -w -R "write f f" b.img >/dev/null 2>&1
s0=$(stat -c %s b.img)
$T/misc/tune2fs -I 256 b.img >out 2>&1; t=$?
$T/e2fsck/e2fsck -fn b.img >/dev/null 2>&1; f=$?
c=$($T/debugfs/debugfs -R "cat f" b.img 2>/dev/null)
echo "tune2fs -I 256: exit $t; image size $s0 -> $(stat -c %s b.img); e2fsck -fn: exit $f; /f reads '$c'"
grep -c "Illegal block number" out | sed 's/^/"Illegal block number" messages: /'
cd /; rm -rf "$D"; [ $f = 0 ] && [ "$c" = hello ]
