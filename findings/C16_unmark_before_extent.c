/* unmark of a clear bit that immediately precedes a set extent reports "was set" on the tree backend */
#include <stdio.h>
#include <ext2fs/ext2fs.h>
int main(void)
{
	struct ext2_super_block sb; ext2_filsys fs; ext2fs_block_bitmap bm[2]; int r[2], t, bad = 0;
	memset(&sb, 0, sizeof(sb));
	ext2fs_blocks_count_set(&sb, 20000); sb.s_log_block_size = 0; sb.s_rev_level = 1;
	if (ext2fs_initialize("img", EXT2_FLAG_64BITS, &sb, unix_io_manager, &fs)) return 2;
	for (t = 0; t < 2; t++) {
		fs->default_bitmap_type = t ? EXT2FS_BMAP64_RBTREE : EXT2FS_BMAP64_BITARRAY;
		if (ext2fs_allocate_block_bitmap(fs, "b", &bm[t])) return 2;
		ext2fs_mark_block_bitmap2(bm[t], 101);
		r[t] = ext2fs_unmark_block_bitmap2(bm[t], 100);
		printf("%s: only 101 set; unmark(100) returns %d; 101 still set: %d\n", t ? "rbtree  " : "bitarray",
		       r[t], ext2fs_test_block_bitmap2(bm[t], 101) != 0);
		if (r[t] != 0 || !ext2fs_test_block_bitmap2(bm[t], 101)) bad = 1;
	}
	return bad;
}
