#!/bin/sh
# replay: a shrink that re-allocates a kept group's inode table at a lower block must write the whole table
T=${1:-/repo}; D=$(mktemp -d); cd $D || exit 2
export MKE2FS_CONFIG=$T/misc/mke2fs.conf
$T/misc/mke2fs -q -F -t ext4 -O ^uninit_bg,^metadata_csum,^metadata_csum_seed,^resize_inode,^has_journal,^orphan_file \
    -b 1024 -g 2048 -G 64 -N 16384 -E lazy_itable_init=0 img 262144 >/dev/null 2>&1 || exit 2
$T/e2fsck/e2fsck -fn img >/dev/null 2>&1 || { echo "fresh fs not clean"; exit 2; }
$T/resize/resize2fs img 131203 >/dev/null 2>&1 || { echo "resize2fs refused"; exit 2; }
$T/e2fsck/e2fsck -fn img > out 2>&1; rc=$?
echo "e2fsck -fn after the shrink: exit $rc"; [ $rc -ne 0 ] && head -4 out
cd /; rm -rf "$D"; [ $rc -eq 0 ]
