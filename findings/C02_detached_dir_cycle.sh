#!/bin/sh
# replay: two directories that are each other's parent and hang on nothing
# else are not reachable from the root; e2fsck -fn must not call that clean
T=${1:-/repo}; D=$(mktemp -d); cd $D || exit 2
MKE2FS_CONFIG=/dev/null $T/misc/mke2fs -q -F -t ext4 img 8M >/dev/null 2>&1 || exit 2
$T/debugfs/debugfs -w img -R "mkdir a" >/dev/null 2>&1; $T/debugfs/debugfs -w img -R "mkdir a/b" >/dev/null 2>&1
I=$($T/debugfs/debugfs -R "stat a/b" img 2>/dev/null | sed -n 's/^Inode: \([0-9]*\).*/\1/p')
printf 'ln a a/b/x\nunlink a/..\nln a/b a/..\nunlink a\nsif / links_count 3\nsif <%s> links_count 3\n' "$I" | $T/debugfs/debugfs -w img >/dev/null 2>&1
$T/e2fsck/e2fsck -fn img >out1 2>&1; n=$?
$T/e2fsck/e2fsck -fy img >out2 2>&1; y=$?
# (reconnecting one member leaves the other's entry as a second link to a directory: pass 2 of the next run removes it)
$T/e2fsck/e2fsck -fy img >out2b 2>&1; y2=$?
$T/e2fsck/e2fsck -fn img >out3 2>&1; n2=$?
echo "e2fsck -fn on a detached directory cycle: exit $n; -fy: exit $y, again: exit $y2; -fn afterwards: exit $n2"
grep -m2 -i "loop\|unconnected\|lost+found" out2
cd /; rm -rf "$D"; [ $n != 0 ] && [ $n2 = 0 ]
