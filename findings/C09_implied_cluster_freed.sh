#!/bin/sh
# replay: on a full bigalloc file system a write into a cluster the file
# already owns fails for lack of a tree block; the cluster must stay the file's
# (not be freed and handed out again over the file's own data)
T=${1:-/repo}; H=$(cd "$(dirname "$0")" && pwd); D=$(mktemp -d); cd $D || exit 2
MKE2FS_CONFIG=/dev/null $T/misc/mke2fs -q -F -b 1024 -N 32 -C 16384 -O extent,bigalloc,huge_file,ext_attr,filetype,sparse_super,^has_journal,^resize_inode -E lazy_itable_init=0 fs.img 4096 >/dev/null 2>&1 || exit 2
cc -O1 -I$T/lib -o sb $H/C09_implied_cluster_freed.c $T/lib/libext2fs.a $T/lib/libcom_err.a -lpthread 2>cc.err || { cat cc.err; exit 2; }
./sb fs.img >out 2>&1; tail -3 out
$T/e2fsck/e2fsck -fn fs.img >fsck 2>&1; f=$?
echo "e2fsck -fn afterwards: exit $f"; grep -m2 "Multiply\|differences" fsck
cd /; rm -rf "$D"; [ $f = 0 ]
