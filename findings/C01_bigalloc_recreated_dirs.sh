#!/bin/sh
# Replay of a C01 defect: on a bigalloc file system e2fsck re-created /lost+found (and the root directory) block
# mapped, which its own pass 1 rejects ("Inode 11 on bigalloc filesystem cannot be block mapped"): the result of
# `e2fsck -fy` is not clean under the following `e2fsck -fn`.
# Exit 0 = the second run finds nothing (fixed), exit 1 = it reports a problem.
# usage: C01_bigalloc_recreated_dirs.sh [repo-root]   (uses the built binaries of that tree)
R=${1:-/repo}
D=$(mktemp -d /tmp/c01rep.XXXXXX)
trap 'rm -rf "$D"' EXIT
export MKE2FS_CONFIG=/dev/null E2FSCK_CONFIG=/dev/null
rc=0
for victim in "rmdir lost+found" "clri <2>"; do
  $R/misc/mke2fs -q -F -O bigalloc,extent,^has_journal -C 16384 -b 4096 $D/img 16M >/dev/null 2>&1 || exit 3
  $R/debugfs/debugfs -w -R "$victim" $D/img >/dev/null 2>&1
  $R/e2fsck/e2fsck -fy $D/img >/dev/null 2>&1
  $R/e2fsck/e2fsck -fn $D/img > $D/out 2>&1
  r=$?
  if [ $r -ne 0 ] || grep -q "cannot be block mapped" $D/out; then
    echo "DEFECT ($victim): after e2fsck -fy, e2fsck -fn exits $r:"; grep "Fix?\|block mapped" $D/out | head -3
    rc=1
  else
    echo "ok ($victim): e2fsck -fy left a clean file system"
  fi
done
exit $rc
