#!/bin/sh
# replay: a problem reported before pass 1 and answered "no" (-n) must give a non-zero exit status
T=${1:-/repo}; D=$(mktemp -d); cd $D || exit 2
export MKE2FS_CONFIG=/dev/null
$T/misc/mke2fs -q -F -O ^metadata_csum,^uninit_bg -I 256 -b 1024 img 16384 >/dev/null 2>&1 || exit 2
$T/debugfs/debugfs -w -R "ssv min_extra_isize 3" img >/dev/null 2>&1
$T/e2fsck/e2fsck -fn img > out 2>&1; r1=$?
grep -q "Bad required extra isize" out || { echo "problem not reported"; exit 2; }
echo "declined superblock problem: e2fsck -fn exit $r1"
$T/misc/mke2fs -q -F -t ext4 -O meta_bg,^resize_inode -b 1024 img2 16384 >/dev/null 2>&1 || exit 2
$T/debugfs/debugfs -w -R "ssv first_meta_bg 99999" img2 >/dev/null 2>&1
$T/e2fsck/e2fsck -fn img2 > out2 2>&1; r2=$?
grep -q "trying backup blocks" out2 || { echo "no fallback to the backup"; exit 2; }
echo "unusable primary superblock: e2fsck -fn exit $r2"
cd /; rm -rf "$D"; [ $r1 -ne 0 ] && [ $r2 -ne 0 ]
