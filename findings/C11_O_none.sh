#!/bin/sh
# replay: tune2fs -O none must not clear features that tune2fs cannot clear one
# by one (extents, 64bit, ...): either it refuses, or the result is consistent
# and the files keep their data
T=${1:-/repo}; D=$(mktemp -d); cd $D || exit 2
MKE2FS_CONFIG=/dev/null $T/misc/mke2fs -q -F -t ext4 -O extent,64bit,^flex_bg,^metadata_csum,^has_journal img 16M >/dev/null 2>&1 || exit 2
head -c 50000 /dev/zero | tr '\0' q > f1; $T/debugfs/debugfs -w -R "write f1 f1" img >/dev/null 2>&1
$T/misc/tune2fs -O none img >out 2>&1; t=$?
$T/e2fsck/e2fsck -fn img >/dev/null 2>&1; f=$?
same=no; $T/debugfs/debugfs -R "cat f1" img 2>/dev/null | cmp -s - f1 && same=yes
echo "tune2fs -O none: exit $t; e2fsck -fn afterwards: exit $f; /f1 still reads its data: $same"
cd /; rm -rf "$D"; [ $f = 0 ] && [ $same = yes ]
