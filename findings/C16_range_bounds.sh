#!/bin/sh
# replay: out-of-range bulk get/set on a 64-bit bitmap is refused
T=${1:-/repo}; H=$(cd "$(dirname "$0")" && pwd); D=$(mktemp -d); cd $D || exit 2
gcc -I$T/lib -o probe $H/C16_range_bounds.c $T/lib/libext2fs.a $T/lib/libcom_err.a -lpthread 2>/dev/null || { echo "compile failed"; exit 2; }
MKE2FS_CONFIG=$T/misc/mke2fs.conf $T/misc/mke2fs -q -F -t ext4 img 8M >/dev/null 2>&1 || exit 2
./probe img; rc=$?
cd /; rm -rf "$D"; exit $rc
