/* replay: bulk get/set of a bit range that lies outside the bitmap must be refused (as the 32-bit twin does),
 * not handed to the backend, which indexes its array with it.  usage: C16_range_bounds <image> */
#include <stdio.h>
#include <string.h>
#include <stdlib.h>
#include "ext2fs/ext2fs.h"
int main(int argc, char **argv)
{
	ext2_filsys fs; ext2fs_block_bitmap bm; errcode_t r; char buf[64]; int bad = 0, t;
	int types[2] = { EXT2FS_BMAP64_BITARRAY, EXT2FS_BMAP64_RBTREE };
	r = ext2fs_open(argv[1], EXT2_FLAG_64BITS, 0, 0, unix_io_manager, &fs);
	if (r) { printf("open: %ld\n", (long) r); return 2; }
	for (t = 0; t < 2; t++) {
		blk64_t end;
		fs->default_bitmap_type = types[t];
		r = ext2fs_allocate_block_bitmap(fs, "probe", &bm);
		if (r) return 2;
		end = ext2fs_get_block_bitmap_end2(bm);
		memset(buf, 0xff, sizeof(buf));
		r = ext2fs_set_block_bitmap_range2(bm, end + 100000, 64, buf);
		printf("backend %d: set_range beyond the end -> %ld\n", types[t], (long) r);
		if (r == 0) bad++;
		r = ext2fs_get_block_bitmap_range2(bm, end + 100000, 64, buf);
		printf("backend %d: get_range beyond the end -> %ld\n", types[t], (long) r);
		if (r == 0) bad++;
		r = ext2fs_set_block_bitmap_range2(bm, fs->super->s_first_data_block, 64, buf);
		if (r) { printf("in-range set refused: %ld\n", (long) r); bad++; }
		ext2fs_free_block_bitmap(bm);
	}
	ext2fs_close(fs);
	return bad ? 1 : 0;
}
