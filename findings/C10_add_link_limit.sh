#!/bin/sh
# replay: a source tree with more than 65535 names for one file (tmpfs allows that) populated with mke2fs -d
T=${1:-/repo}; D=$(mktemp -d -p /dev/shm); cd $D || exit 2
mkdir src; echo data > src/f0
python3 - <<'PY'
import os
for i in range(1, 65540):
    os.link("src/f0", "src/f%d" % i)
PY
export MKE2FS_CONFIG=$T/misc/mke2fs.conf
$T/misc/mke2fs -q -F -t ext4 -O ^has_journal -N 1000 -d src img 64M > mk.out 2>&1; mrc=$?
echo "mke2fs rc=$mrc: $(tail -1 mk.out)"
if [ $mrc -ne 0 ]; then echo "population refused (EMLINK) instead of writing a wrapped link count: OK"; cd /; rm -rf "$D"; exit 0; fi
$T/debugfs/debugfs -R "stat f0" img 2>/dev/null | grep -o "Links: [0-9]*"
$T/e2fsck/e2fsck -fn img > out 2>&1; rc=$?
grep -i "ref count" out | head -2; echo "e2fsck rc=$rc"
cd /; rm -rf "$D"; [ $rc -eq 0 ]
