#!/bin/sh
# replay: running out of space while a value inode is written fails the set and
# leaves a consistent file system (no blocks marked that nothing owns)
T=${1:-/repo}; H=$(cd "$(dirname "$0")" && pwd); D=$(mktemp -d); cd $D || exit 2
MKE2FS_CONFIG=/dev/null $T/misc/mke2fs -q -F -t ext4 -O ext_attr,ea_inode,^has_journal,^resize_inode -I 256 -b 1024 -N 16 img 80 >/dev/null 2>&1 || exit 2
echo hi > f; $T/debugfs/debugfs -w -R "write f f" img >/dev/null 2>&1
$T/e2fsck/e2fsck -fn img >/dev/null 2>&1 || exit 2
cc -I$T/lib -o t $H/C15_value_inode_enospc.c $T/lib/libext2fs.a $T/lib/libcom_err.a -lpthread 2>cc.err || { cat cc.err; exit 2; }
./t img; rc=$?; [ $rc = 0 ] || { echo "the set did not fail as arranged (rc $rc)"; cd /; rm -rf "$D"; exit 2; }
$T/e2fsck/e2fsck -fn img >out 2>&1; f=$?
echo "e2fsck -fn afterwards: exit $f"; grep -m2 "differences\|unattached\|Unattached" out
cd /; rm -rf "$D"; [ $f = 0 ]
