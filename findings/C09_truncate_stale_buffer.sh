#!/bin/sh
# replay: truncating through a file handle must not leave a stale block buffer behind (scenarios 1 and 2 of side_obs.c)
T=${1:-/repo}; D=$(mktemp -d); cd $D || exit 2
cc -I$T/lib -o so /verif/seeded/C09-1/side_obs.c $T/lib/libext2fs.a $T/lib/libcom_err.a -lpthread || exit 2
rc=0
for s in 1 2; do
  dd if=/dev/zero of=img bs=1M count=16 2>/dev/null
  MKE2FS_CONFIG=/dev/null $T/misc/mke2fs -q -F -b 1024 -O extent,^has_journal img 2>/dev/null
  $T/debugfs/debugfs -w -R "write /dev/null f" img >/dev/null 2>&1
  $T/debugfs/debugfs -w -R "write /dev/null g" img >/dev/null 2>&1
  ./so img $s f g || rc=1
done
cd /; rm -rf "$D"; exit $rc
