#!/bin/sh
# replay: two file systems share one external journal; taking the journal away
# from the second one removes the second one's entry from the journal's list
# of users, not the first entry
T=${1:-/repo}; H=$(cd "$(dirname "$0")" && pwd); D=$(mktemp -d); cd $D || exit 2
cc -shared -fPIC -o shim.so $H/C11_blkid_shim.c || exit 2
MKE2FS_CONFIG=/dev/null $T/misc/mke2fs -q -F -O journal_dev -b 1024 j.img 4096 >/dev/null 2>&1 || exit 2
MKE2FS_CONFIG=/dev/null $T/misc/mke2fs -q -F -t ext2 -b 1024 fs1.img 4M >/dev/null 2>&1 || exit 2
MKE2FS_CONFIG=/dev/null $T/misc/mke2fs -q -F -t ext2 -b 1024 fs2.img 4M >/dev/null 2>&1 || exit 2
uuid() { $T/misc/dumpe2fs -h $1 2>/dev/null | sed -n 's/^Filesystem UUID: *//p'; }
U1=$(uuid fs1.img); U2=$(uuid fs2.img); UJ=$(uuid j.img)
python3 $H/C11_mkusers.py j.img $U1 $U2 || exit 2
printf 'ssv journal_uuid %s\nssv journal_dev 0x0801\nfeature has_journal\n' "$UJ" | $T/debugfs/debugfs -w fs2.img >/dev/null 2>&1
JDEV=$D/j.img LD_PRELOAD=$D/shim.so $T/misc/tune2fs -O ^has_journal fs2.img >out 2>&1; t=$?
left=$($T/misc/dumpe2fs -h j.img 2>/dev/null | sed -n 's/^Journal users: *//p')
echo "users before: $U1 (fs1) $U2 (fs2); tune2fs -O ^has_journal fs2: exit $t; users left: $left"
cd /; rm -rf "$D"; [ $t = 0 ] && [ "$left" = "$U1" ]
