#!/bin/sh
# Replay of a C11 defect found by rule C11.b: `tune2fs -f -O metadata_csum -E clear_mmp` sets the feature
# and then leaves through the clear_mmp shortcut, skipping rewrite_metadata_checksums(): tune2fs exits 0
# and the file system can no longer be opened.  Exit 0 = consistent afterwards.
R=${1:-/repo}
D=$(mktemp -d /tmp/c11b.XXXXXX); trap 'rm -rf "$D"' EXIT
export MKE2FS_CONFIG=$R/tests/mke2fs.conf E2FSCK_CONFIG=/dev/null
dd if=/dev/zero of=$D/a.img bs=1k count=16384 2>/dev/null
$R/misc/mke2fs -q -F -t ext4 -O mmp,^metadata_csum $D/a.img >/dev/null 2>&1 || exit 3
$R/debugfs/debugfs -w -R "write /etc/passwd p" $D/a.img >/dev/null 2>&1
$R/e2fsck/e2fsck -fn $D/a.img >/dev/null 2>&1 || exit 3
$R/misc/tune2fs -f -O metadata_csum -E clear_mmp $D/a.img >$D/o1 2>&1; t=$?
$R/e2fsck/e2fsck -fn $D/a.img >$D/o2 2>&1; rc=$?
if [ $t -eq 0 ] && [ $rc -ne 0 ]; then echo "DEFECT: tune2fs -O metadata_csum -E clear_mmp exited 0 but e2fsck -fn exits $rc:"; grep -m2 -i "checksum\|corrupt" $D/o2; exit 1; fi
echo "ok (tune2fs exit $t, e2fsck -fn exit $rc)"; exit 0
