/* replay: (1) bulk get of a range from an empty rbtree bitmap must give zeros, as the bit array does;
 * (2) comparing two cluster bitmaps must look at every cluster.   usage: C16_rb_sibling <bigalloc image> */
#include <stdio.h>
#include <string.h>
#include "ext2fs/ext2fs.h"
int main(int argc, char **argv)
{
	ext2_filsys fs; ext2fs_block_bitmap a, b; errcode_t r; unsigned char buf[8]; int bad = 0;
	r = ext2fs_open(argv[1], EXT2_FLAG_64BITS, 0, 0, unix_io_manager, &fs);
	if (r) { printf("open: %ld\n", (long) r); return 2; }
	fs->default_bitmap_type = EXT2FS_BMAP64_RBTREE;
	if (ext2fs_allocate_block_bitmap(fs, "a", &a) || ext2fs_allocate_block_bitmap(fs, "b", &b)) return 2;
	memset(buf, 0xaa, sizeof(buf));
	r = ext2fs_get_block_bitmap_range2(a, fs->super->s_first_data_block, 64, buf);
	printf("get_range on an empty rbtree bitmap: ret %ld, first byte 0x%02x (want 0x00)\n", (long) r, buf[0]);
	if (r || buf[0]) bad++;
	{
		blk64_t last = ext2fs_blocks_count(fs->super) - 1;
		ext2fs_mark_block_bitmap2(a, last);
		r = ext2fs_compare_block_bitmap(a, b);
		printf("bitmaps differing in the last cluster compare as %s\n", r ? "different" : "EQUAL");
		if (!r) bad++;
	}
	ext2fs_free_block_bitmap(a); ext2fs_free_block_bitmap(b); ext2fs_close(fs);
	return bad ? 1 : 0;
}
