#!/bin/sh
# replay: mke2fs -d on an inline_data file system must keep the length of files that end in a hole
T=${1:-/repo}; D=$(mktemp -d); cd $D || exit 2
mkdir src
python3 -c "f=open('src/tail_hole','wb'); f.write(b'A'*8192); f.truncate(1<<20)"
python3 -c "f=open('src/mid','wb'); f.write(b'D'*100); f.truncate(5000)"
MKE2FS_CONFIG=$T/misc/mke2fs.conf $T/misc/mke2fs -q -F -t ext4 -O inline_data -d src img 8M >/dev/null 2>&1 || exit 2
s1=$($T/debugfs/debugfs -R "stat /tail_hole" img 2>/dev/null | sed -n 's/.*Size: \([0-9]*\).*/\1/p' | head -1)
s2=$($T/debugfs/debugfs -R "stat /mid" img 2>/dev/null | sed -n 's/.*Size: \([0-9]*\).*/\1/p' | head -1)
echo "tail_hole size $s1 (want 1048576), mid size $s2 (want 5000)"
cd /; rm -rf "$D"; [ "$s1" = 1048576 ] && [ "$s2" = 5000 ]
