#!/bin/sh
# replay: set_range assigns the range in both 64-bit backends
T=${1:-/repo}; D=$(mktemp -d); cd $D || exit 2
MKE2FS_CONFIG=$T/misc/mke2fs.conf $T/misc/mke2fs -q -F -t ext4 img 8M || exit 2
cc -I$T/lib -o t /verif/findings/C16_set_range_overwrites.c $T/lib/libext2fs.a $T/lib/libcom_err.a -lpthread || exit 2
./t img; rc=$?
cd /; rm -rf "$D"; exit $rc
