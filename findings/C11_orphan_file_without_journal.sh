#!/bin/sh
# replay: no tune2fs invocation leaves an orphan file on a file system without
# a journal (e2fsck: "Superblock has orphan file without journal")
T=${1:-/repo}; D=$(mktemp -d); cd $D || exit 2
MKE2FS_CONFIG=/dev/null $T/misc/mke2fs -q -F -O extent,has_journal,orphan_file,sparse_super,filetype,uninit_bg,flex_bg,64bit,metadata_csum -b 1024 f.img 32M >/dev/null 2>&1 || exit 2
$T/misc/tune2fs -O ^has_journal f.img >/dev/null 2>&1; t1=$?
$T/e2fsck/e2fsck -fn f.img >/dev/null 2>&1; f1=$?
MKE2FS_CONFIG=/dev/null $T/misc/mke2fs -q -F -O ^has_journal,extent,sparse_super,filetype -b 1024 g.img 16M >/dev/null 2>&1 || exit 2
$T/misc/tune2fs -E orphan_file_size=8k g.img >/dev/null 2>&1; t2=$?
$T/e2fsck/e2fsck -fn g.img >/dev/null 2>&1; f2=$?
# both features can still be cleared together
MKE2FS_CONFIG=/dev/null $T/misc/mke2fs -q -F -O extent,has_journal,orphan_file,sparse_super,filetype -b 1024 h.img 32M >/dev/null 2>&1 || exit 2
$T/misc/tune2fs -O ^has_journal,^orphan_file h.img >/dev/null 2>&1; t3=$?
$T/e2fsck/e2fsck -fn h.img >/dev/null 2>&1; f3=$?
echo "tune2fs -O ^has_journal with orphan_file: exit $t1, e2fsck -fn exit $f1"
echo "tune2fs -E orphan_file_size=8k without journal: exit $t2, e2fsck -fn exit $f2"
echo "tune2fs -O ^has_journal,^orphan_file: exit $t3, e2fsck -fn exit $f3"
cd /; rm -rf "$D"; [ $f1 = 0 ] && [ $f2 = 0 ] && [ $t3 = 0 ] && [ $f3 = 0 ]
