#!/bin/sh
# replay: debugfs "logdump -S -f <file>" works from a journal file alone; with
# no file system open it must not dereference the (null) current file system
T=${1:-/repo}; D=$(mktemp -d); cd $D || exit 2
MKE2FS_CONFIG=/dev/null $T/misc/mke2fs -q -F -t ext4 -j -b 1024 img 8M >/dev/null 2>&1 || exit 2
$T/debugfs/debugfs -R "dump <8> j.bin" img >/dev/null 2>&1
$T/debugfs/debugfs -R "logdump -S -f j.bin" >out 2>&1; rc=$?
echo "debugfs logdump -S -f j.bin without a file system: exit $rc (139 = SIGSEGV); $(grep -c 'Journal' out) journal lines printed"
cd /; rm -rf "$D"; [ $rc -lt 128 ]
