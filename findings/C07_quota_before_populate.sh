#!/bin/sh
# replay: mke2fs -O quota -d <dir> must produce a file system that e2fsck -fn accepts
T=${1:-/repo}; D=$(mktemp -d); cd $D || exit 2
export MKE2FS_CONFIG=/nonexistent
mkdir src; echo hi > src/a; mkdir src/d; head -c 100000 /dev/urandom > src/d/b
$T/misc/mke2fs -q -F -t ext4 -O quota -d src img 32M || exit 2
$T/e2fsck/e2fsck -fn img > out 2>&1; rc=$?
grep -i "quota" out | head -3; echo "e2fsck rc=$rc"
cd /; rm -rf "$D"; [ $rc -eq 0 ]
