#!/bin/sh
# replay: tune2fs -I <size> -z <undo file> records into that file, and e2undo
# restores the exact previous bytes from it
T=${1:-/repo}; D=$(mktemp -d); cd $D || exit 2
MKE2FS_CONFIG=/dev/null $T/misc/mke2fs -q -F -t ext4 -O ^flex_bg -I 128 -b 1024 img 8M >/dev/null 2>&1 || exit 2
echo data > f; $T/debugfs/debugfs -w -R "write f f" img >/dev/null 2>&1
$T/e2fsck/e2fsck -fy img >/dev/null 2>&1
before=$(sha256sum < img)
E2FSPROGS_UNDO_DIR=none $T/misc/tune2fs -I 256 -z $D/U img >out 2>&1; t=$?
[ -s U ] && have=yes || have=no
$T/misc/e2undo U img >/dev/null 2>&1; u=$?
after=$(sha256sum < img)
echo "tune2fs -I 256 -z U: exit $t; undo file written: $have; e2undo exit $u; image restored: $([ "$before" = "$after" ] && echo yes || echo no)"
cd /; rm -rf "$D"; [ "$before" = "$after" ]
