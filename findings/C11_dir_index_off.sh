#!/bin/sh
# replay: tune2fs -O ^dir_index on a file system with indexed directories either leaves it consistent or asks for the
# e2fsck run that makes it so
T=${1:-/repo}; D=$(mktemp -d); cd $D || exit 2
mkdir src; i=1; while [ $i -le 200 ]; do : > src/file_with_quite_a_long_name_number_$i; i=$((i+1)); done
MKE2FS_CONFIG=/dev/null $T/misc/mke2fs -q -F -t ext2 -O dir_index,^metadata_csum -b 1024 -d src img 4M >/dev/null 2>&1 || exit 2
$T/e2fsck/e2fsck -fyD img >/dev/null 2>&1
$T/e2fsck/e2fsck -fn img >/dev/null 2>&1 || { echo "setup not clean"; exit 2; }
$T/misc/tune2fs -O ^dir_index img > out 2>&1; trc=$?
asked=$(grep -c -i "run e2fsck" out)
$T/e2fsck/e2fsck -fn img >/dev/null 2>&1; rc1=$?
$T/e2fsck/e2fsck -fy img >/dev/null 2>&1
$T/e2fsck/e2fsck -fn img >/dev/null 2>&1; rc2=$?
echo "tune2fs exit $trc, asked for e2fsck: $asked; e2fsck -fn right after: $rc1; after one e2fsck -fy: $rc2"
cd /; rm -rf "$D"; { [ $rc1 -eq 0 ] || [ "$asked" -ge 1 ]; } && [ $rc2 -eq 0 ]
