#!/bin/sh
# replay: with inline_data, a populated file that is all zeroes (or all hole)
# and longer than the inline area must read back with its full length
T=${1:-/repo}; D=$(mktemp -d); cd $D || exit 2
mkdir src; head -c 100 /dev/zero > src/z100; head -c 5000 /dev/zero > src/z5000
truncate -s 300 src/sp300; head -c 40 /dev/zero > src/z40
MKE2FS_CONFIG=/dev/null $T/misc/mke2fs -q -F -t ext4 -I 256 -O inline_data -d src img 8M >/dev/null 2>&1 || exit 2
$T/e2fsck/e2fsck -fn img >/dev/null 2>&1; fsck=$?
rc=0
for f in z100 z5000 sp300 z40; do
	want=$(wc -c < src/$f); got=$($T/debugfs/debugfs -R "cat /$f" img 2>/dev/null | wc -c)
	echo "$f: $want bytes in the source, $got bytes read back"
	[ "$want" = "$got" ] || rc=1
done
echo "e2fsck -fn: exit $fsck"; [ $fsck = 0 ] || rc=1
cd /; rm -rf "$D"; exit $rc
