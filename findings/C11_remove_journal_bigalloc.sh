#!/bin/sh
# replay: tune2fs -O ^has_journal on a bigalloc file system gives the journal's
# clusters back once each; the result must check clean
T=${1:-/repo}; D=$(mktemp -d); cd $D || exit 2
MKE2FS_CONFIG=/dev/null $T/misc/mke2fs -q -F -O extent,bigalloc,has_journal,sparse_super,filetype,uninit_bg -C 16384 -b 1024 c.img 64M >/dev/null 2>&1 || exit 2
$T/misc/tune2fs -O ^has_journal c.img >/dev/null 2>&1; t=$?
$T/e2fsck/e2fsck -fn c.img >out 2>&1; f=$?
echo "tune2fs -O ^has_journal: exit $t; e2fsck -fn: exit $f"; grep -m2 "count wrong" out
cd /; rm -rf "$D"; [ $t = 0 ] && [ $f = 0 ]
