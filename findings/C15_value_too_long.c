/* a value longer than the reader accepts: set must refuse it, or the attributes must stay readable */
#include <stdio.h>
#include <stdlib.h>
#include <string.h>
#include <ext2fs/ext2fs.h>
int main(int argc, char **argv)
{
	ext2_filsys fs; struct ext2_xattr_handle *h; errcode_t e, r; ext2_ino_t ino; char *buf; size_t n = 65537;
	if (ext2fs_open(argv[1], EXT2_FLAG_RW | EXT2_FLAG_64BITS, 0, 0, unix_io_manager, &fs)) return 2;
	if (ext2fs_read_bitmaps(fs)) return 2;
	if (ext2fs_namei(fs, EXT2_ROOT_INO, EXT2_ROOT_INO, "f", &ino)) return 2;
	buf = malloc(n); memset(buf, 'v', n);
	if (ext2fs_xattrs_open(fs, ino, &h) || ext2fs_xattrs_read(h)) return 2;
	e = ext2fs_xattr_set(h, "user.small", "abc", 3);
	if (e) return 2;
	e = ext2fs_xattr_set(h, "user.huge", buf, n);
	ext2fs_xattrs_close(&h);
	if (ext2fs_xattrs_open(fs, ino, &h)) return 2;
	r = ext2fs_xattrs_read(h);
	printf("set of a %zu-byte value: %s; reading the inode's attributes afterwards: %s\n", n,
	       e ? error_message(e) : "accepted", r ? error_message(r) : "ok");
	ext2fs_xattrs_close(&h);
	ext2fs_close(fs);
	return r ? 1 : 0;
}
