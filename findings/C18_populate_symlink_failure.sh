#!/bin/sh
# replay: when mke2fs -d cannot copy an entry (a symlink whose target is longer
# than lstat() said, as under /proc) it must not report success with a
# directory that lacks the entries
T=${1:-/repo}; D=$(mktemp -d); cd $D || exit 2
MKE2FS_CONFIG=/dev/null $T/misc/mke2fs -q -F -t ext4 -d /proc/self/ns img 8M >out 2>&1; rc=$?
n=$($T/debugfs/debugfs -R "ls -l /" img 2>/dev/null | grep -c " -> \|120777")
src=$(ls /proc/self/ns | wc -l)
echo "mke2fs -d /proc/self/ns: exit $rc; $src entries in the source, $n symlinks in the image"
cd /; rm -rf "$D"; [ $rc != 0 ] || [ "$n" = "$src" ]
