#!/bin/sh
# replay: removing the last attribute that lived in the EA block releases the
# block (storage is not leaked); the file system stays consistent
T=${1:-/repo}; D=$(mktemp -d); cd $D || exit 2
MKE2FS_CONFIG=/dev/null $T/misc/mke2fs -q -F -t ext4 -O ext_attr,^has_journal -I 128 -b 1024 img 4M >/dev/null 2>&1 || exit 2
echo hi > f; $T/debugfs/debugfs -w -R "write f f" img >/dev/null 2>&1
free0=$($T/misc/dumpe2fs -h img 2>/dev/null | sed -n 's/^Free blocks: *//p')
$T/debugfs/debugfs -w -R "ea_set f user.x 0123456789012345678901234567890123456789" img >/dev/null 2>&1
acl1=$($T/debugfs/debugfs -R "stat f" img 2>/dev/null | sed -n 's/.*File ACL: \([0-9]*\).*/\1/p')
$T/debugfs/debugfs -w -R "ea_rm f user.x" img >/dev/null 2>&1
acl2=$($T/debugfs/debugfs -R "stat f" img 2>/dev/null | sed -n 's/.*File ACL: \([0-9]*\).*/\1/p')
free2=$($T/misc/dumpe2fs -h img 2>/dev/null | sed -n 's/^Free blocks: *//p')
$T/e2fsck/e2fsck -fn img >/dev/null 2>&1; f=$?
echo "EA block after set: $acl1, after removing the only attribute: $acl2; free blocks $free0 -> $free2; e2fsck -fn exit $f"
cd /; rm -rf "$D"; [ "$acl2" = 0 ] && [ "$free0" = "$free2" ] && [ $f = 0 ]
