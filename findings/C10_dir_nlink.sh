#!/bin/sh
# replay: 65010 sub-directories in one directory; parent's link count must follow the dir_nlink rule
T=${1:-/repo}; D=$(mktemp -d); cd $D || exit 2
export MKE2FS_CONFIG=$T/misc/mke2fs.conf
$T/misc/mke2fs -q -F -t ext4 -O ^has_journal -N 70000 img 256M || exit 2
{ echo "mkdir d"; i=0; while [ $i -lt 65010 ]; do echo "mkdir d/s$i"; i=$((i+1)); done; } > cmds
$T/debugfs/debugfs -w -f cmds img >/dev/null 2>&1
$T/debugfs/debugfs -R "stat d" img 2>/dev/null | grep -o "Links: [0-9]*"
$T/e2fsck/e2fsck -fn img > out 2>&1; rc=$?
grep -i "ref count\|nlink" out | head -3
echo "e2fsck rc=$rc"
cd /; rm -rf "$D"; [ $rc -eq 0 ]
