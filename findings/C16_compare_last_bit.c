#include <stdio.h>
#include <stdlib.h>
#include "ext2fs/ext2fs.h"
/* two block bitmaps over the same range that differ only in their last bit must not compare equal */
int main(int argc, char **argv)
{
	ext2_filsys fs; ext2fs_block_bitmap a, b; errcode_t r; int bad = 0; int type;
	r = ext2fs_open(argv[1], EXT2_FLAG_64BITS, 0, 0, unix_io_manager, &fs);
	if (r) { printf("open failed %ld\n", (long) r); return 2; }
	for (type = EXT2FS_BMAP64_BITARRAY; type <= EXT2FS_BMAP64_RBTREE; type++) {
		blk64_t last;
		fs->default_bitmap_type = type;
		if (ext2fs_allocate_block_bitmap(fs, "a", &a) || ext2fs_allocate_block_bitmap(fs, "b", &b)) return 2;
		last = ext2fs_get_block_bitmap_end2(a);
		ext2fs_mark_block_bitmap2(a, last);
		r = ext2fs_compare_block_bitmap(a, b);
		printf("backend %d: bitmaps differing in bit %llu compare %s\n", type, (unsigned long long) last, r ? "different" : "EQUAL");
		if (!r) bad = 1;
		ext2fs_mark_block_bitmap2(a, last - 1); ext2fs_unmark_block_bitmap2(a, last);
		if (!ext2fs_compare_block_bitmap(a, b)) { printf("control failed\n"); bad = 1; }
		ext2fs_free_block_bitmap(a); ext2fs_free_block_bitmap(b);
	}
	ext2fs_close_free(&fs);
	return bad;
}
