/* LD_PRELOAD shim: every write() of more than 3000 bytes is a short write */
#define _GNU_SOURCE
#include <dlfcn.h>
#include <unistd.h>
ssize_t write(int fd, const void *buf, size_t n)
{
	static ssize_t (*real)(int, const void *, size_t);
	if (!real)
		real = (ssize_t (*)(int, const void *, size_t)) dlsym(RTLD_NEXT, "write");
	if (n > 3000)
		n = 3000;
	return real(fd, buf, n);
}
