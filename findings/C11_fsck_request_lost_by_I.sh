#!/bin/sh
# replay: when tune2fs says "Please run e2fsck -f" it leaves the file system
# marked not clean, also when the same invocation changes the inode size
T=${1:-/repo}; D=$(mktemp -d); cd $D || exit 2
MKE2FS_CONFIG=/dev/null $T/misc/mke2fs -q -F -O ^flex_bg,resize_inode,extent,sparse_super,filetype -I 128 -b 1024 a.img 16M >/dev/null 2>&1 || exit 2
$T/misc/tune2fs -O ^resize_inode -I 256 a.img >out 2>&1; t=$?
asked=$(grep -c "run e2fsck" out)
state=$($T/misc/dumpe2fs -h a.img 2>/dev/null | sed -n 's/^Filesystem state: *//p')
$T/e2fsck/e2fsck -fn a.img >/dev/null 2>&1; f=$?
echo "tune2fs -O ^resize_inode -I 256: exit $t, asked for e2fsck: $asked, state afterwards: '$state', e2fsck -fn: exit $f"
cd /; rm -rf "$D"
# either nothing was asked for and the file system is clean, or it is marked for the check
[ "$asked" = 0 ] && [ $f = 0 ] && exit 0
[ "$asked" != 0 ] && [ "$state" != "clean" ]
