#!/bin/sh
# Replay of the C13 defects found by rules C13.h / C13.i: `e2fsck -n` goes on to repair without having been
# allowed to.  (a) journal superblock with s_errno and (b) -E bmap2extent mark the superblock dirty, and the close
# sends a write request that only the O_RDONLY descriptor turns away ("Error writing block", "FILE SYSTEM WAS
# MODIFIED"); (c) a block bitmap / (d) an inode table whose location is 0 is relocated and zeroed (write requests,
# the check aborts; with the inode table it restarts for ever); (e) -E unshare_blocks clones the shared blocks;
# (f) a resize inode that cannot be read is re-created (the check aborts); (g) a duplicate entry schedules the
# directory for rebuilding, after which an htree node with a bad checksum has its index cleared (write refused by
# the library, the check aborts).
# Exit 0 = under -n no write request was sent and the check ran to its end (fixed), exit 1 otherwise.
# usage: C13_readonly_write_attempt.sh [repo-root]   (uses the built binaries of that tree)
R=${1:-/repo}
D=$(mktemp -d /tmp/c13rep.XXXXXX)
trap 'rm -rf "$D"' EXIT
export MKE2FS_CONFIG=/dev/null E2FSCK_CONFIG=/dev/null
rc=0
attempt() {  # name, e2fsck args...
  name=$1; shift
  S1=$(sha256sum < $D/img)
  timeout 30 strace -f -e trace=pwrite64 -o $D/tr $R/e2fsck/e2fsck "$@" $D/img > $D/out 2>&1
  erc=$?
  S2=$(sha256sum < $D/img)
  # fd 3/4 are the image (opened O_RDONLY); a pwrite64 on it is the attempted device write
  if grep -q "pwrite64(" $D/tr || grep -q "Error writing block\|aborted\|Attempt to write" $D/out || [ "$S1" != "$S2" ] ||
     [ $erc -ge 8 ]; then
    echo "DEFECT ($name): e2fsck -n sent a write request to the image or gave up (exit $erc):"
    grep "pwrite64(" $D/tr | head -2; grep "Error writing\|WAS MODIFIED\|aborted\|Attempt to write" $D/out | head -3
    rc=1
  else
    echo "ok ($name): no write request under -n"
  fi
}
# (a) journal superblock with s_errno, no recovery needed
$R/misc/mke2fs -q -F -t ext4 -O has_journal -b 1024 $D/img 8M >/dev/null 2>&1 || exit 3
B=$($R/debugfs/debugfs -R "bmap <8> 0" $D/img 2>/dev/null)
printf '\377\377\377\373' | dd of=$D/img bs=1 seek=$((B*1024+32)) conv=notrunc 2>/dev/null
attempt "journal s_errno" -n
# (b) -E bmap2extent on a block-mapped filesystem
$R/misc/mke2fs -q -F -O ^extents,has_journal -b 1024 $D/img 8M >/dev/null 2>&1 || exit 3
attempt "bmap2extent" -fn -E bmap2extent
# (c) block bitmap location 0, (d) inode table location 0 in the primary and the backup descriptors of group 1
for off in 0 8; do
  $R/misc/mke2fs -q -F -O ^resize_inode -b 1024 $D/img 20M >/dev/null 2>&1 || exit 3
  for blk in 2 8194; do
    printf '\0\0\0\0' | dd of=$D/img bs=1 seek=$((blk*1024+32+off)) conv=notrunc 2>/dev/null
  done
  attempt "table location 0 (descriptor offset $off)" -fn
done
# (e) shared blocks with -E unshare_blocks
gunzip -c $R/tests/f_dup/image.gz > $D/img || exit 3
attempt "unshare_blocks" -fn -E unshare_blocks
# (f) resize inode with a bad checksum
$R/misc/mke2fs -q -F -O metadata_csum,resize_inode,^has_journal -I 256 -b 1024 $D/img 20M >/dev/null 2>&1 || exit 3
$R/debugfs/debugfs -w -R "sif <7> checksum 0x1234" $D/img >/dev/null 2>&1
attempt "unreadable resize inode" -fn
# (g) duplicate entry in a two-level htree directory one of whose interior nodes fails its checksum
$R/misc/mke2fs -q -F -O metadata_csum,dir_index,^has_journal -I 256 -b 1024 -N 8000 $D/img 32M >/dev/null 2>&1 || exit 3
{ echo "mkdir d"; i=0; while [ $i -lt 6000 ]; do printf 'mknod d/file_with_a_long_name_%05d p\n' $i; i=$((i+1)); done; } > $D/cmds
$R/debugfs/debugfs -w -f $D/cmds $D/img >/dev/null 2>&1
$R/e2fsck/e2fsck -fyD $D/img >/dev/null 2>&1
$R/debugfs/debugfs -w -R "mknod zz p" $D/img >/dev/null 2>&1
$R/debugfs/debugfs -w -R "ln zz d" $D/img >/dev/null 2>&1
$R/debugfs/debugfs -w -R "ln zz d" $D/img >/dev/null 2>&1
L=$($R/debugfs/debugfs -R "htree_dump d" $D/img 2>/dev/null | sed -n 's/^Entry #0: Hash 0x00000000, block \([0-9]*\)$/\1/p' | head -1)
P=$($R/debugfs/debugfs -R "bmap d $L" $D/img 2>/dev/null)
[ -n "$P" ] && [ "$P" -gt 0 ] || exit 3
B=$(dd if=$D/img bs=1 skip=$((P*1024+1020)) count=1 2>/dev/null | od -An -tu1 | tr -d ' ')
printf "\\$(printf '%03o' $(( (B ^ 255) & 255 )))" | dd of=$D/img bs=1 seek=$((P*1024+1020)) conv=notrunc 2>/dev/null
attempt "duplicate entry, then htree node with a bad checksum" -fn
exit $rc
