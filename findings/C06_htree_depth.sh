#!/bin/sh
# replay: debugfs htree_dump must not take the index depth from the disk on
# trust: 8 claimed levels over two blocks that point at each other demand
# 100 * 127^8 node visits
T=${1:-/repo}; H=$(cd "$(dirname "$0")" && pwd); D=$(mktemp -d); cd $D || exit 2
MKE2FS_CONFIG=/dev/null $T/misc/mke2fs -q -F -t ext2 -b 1024 img 4M >/dev/null 2>&1 || exit 2
B0=$($T/debugfs/debugfs -R "bmap /lost+found 0" img 2>/dev/null)
B1=$($T/debugfs/debugfs -R "bmap /lost+found 1" img 2>/dev/null)
python3 $H/C06_mkhtree.py img $B0 $B1 || exit 2
$T/debugfs/debugfs -w -R "sif /lost+found flags 0x1000" img >/dev/null 2>&1
timeout -s KILL 10 $T/debugfs/debugfs -R "htree_dump /lost+found" img >/dev/null 2>&1; rc=$?
echo "debugfs htree_dump with 8 claimed levels: exit $rc (137 = killed after 10 s)"
cd /; rm -rf "$D"; [ $rc -lt 128 ]
