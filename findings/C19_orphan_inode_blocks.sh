#!/bin/sh
# replay: an inode on the orphan list (unlinked while open at crash time) is
# processed by e2fsck through its mapping blocks; an e2image -r image must
# give e2fsck the same result as the source
T=${1:-/repo}; D=$(mktemp -d); cd $D || exit 2
MKE2FS_CONFIG=/dev/null $T/misc/mke2fs -q -F -t ext3 -b 1024 fs.img 8192 >/dev/null 2>&1 || exit 2
head -c 100000 /dev/zero | tr '\0' y > data
$T/debugfs/debugfs -w -R "write data f" fs.img >/dev/null 2>&1
I=$($T/debugfs/debugfs -R "stat f" fs.img 2>/dev/null | sed -n 's/^Inode: \([0-9]*\).*/\1/p')
printf 'sif f links_count 0\nunlink f\nssv last_orphan %s\n' "$I" | $T/debugfs/debugfs -w fs.img >/dev/null 2>&1
$T/misc/e2image -r fs.img img.raw >/dev/null 2>&1 || exit 2
cp fs.img src.copy
$T/e2fsck/e2fsck -fy src.copy >out.src 2>&1; a=$?
$T/e2fsck/e2fsck -fy img.raw >out.img 2>&1; b=$?
echo "e2fsck -fy on the source: exit $a; on the image: exit $b"
sed 's/^src.copy/X/; s/^img.raw/X/' out.src > o1; sed 's/^src.copy/X/; s/^img.raw/X/' out.img > o2
diff o1 o2 | head -5; d=$?
cmp -s o1 o2; d=$?
cd /; rm -rf "$D"; [ $a = $b ] && [ $d = 0 ]
