#!/bin/sh
# replay: an attribute whose name part is longer than 255 bytes cannot be
# stored (e_name_len is one byte): set must refuse it, not store another name
T=${1:-/repo}; D=$(mktemp -d); cd $D || exit 2
MKE2FS_CONFIG=/dev/null $T/misc/mke2fs -q -F -t ext4 -O ext_attr -I 256 -b 4096 img 8M >/dev/null 2>&1 || exit 2
echo hi > f; $T/debugfs/debugfs -w -R "write f f" img >/dev/null 2>&1
N=user.$(python3 -c "print('n'*300)")
out=$($T/debugfs/debugfs -w -R "ea_set f $N value" img 2>&1 | grep -v "^debugfs ")
names=$($T/debugfs/debugfs -R "ea_list f" img 2>/dev/null | grep -c "user\.")
len=$($T/debugfs/debugfs -R "ea_list f" img 2>/dev/null | sed -n 's/^ *user\.\(n*\) .*/\1/p' | head -1 | wc -c)
echo "ea_set of a 300-character name said: '${out}'; user attributes stored: $names (name part $((len-1)) characters)"
cd /; rm -rf "$D"; [ -n "$out" ] && [ "$names" = 0 ]
