#!/bin/sh
# replay: the first clear bit of an empty set of integers is the start of the search, on every backend
T=${1:-/repo}; H=$(cd "$(dirname "$0")" && pwd); D=$(mktemp -d); cd $D || exit 2
truncate -s 32M img
cc -I$T/lib -o t $H/C16_find_first_zero_empty.c $T/lib/libext2fs.a $T/lib/libcom_err.a -lpthread 2>cc.err || { cat cc.err; exit 2; }
./t; rc=$?
cd /; rm -rf "$D"; exit $rc
