/* Replay: set_option("cache=off") flushes but does not invalidate; writes made while the cache
 * is off bypass it; after set_option("cache=on") a read returns the stale cached copy. */
#include <stdio.h>
#include <string.h>
#include <stdlib.h>
#include "ext2fs/ext2fs.h"
int main(int argc, char **argv)
{
	io_channel ch; char a[1024], b[1024];
	if (unix_io_manager->open(argv[1], IO_FLAG_RW, &ch)) return 3;
	io_channel_set_blksize(ch, 1024);
	memset(a, 'A', 1024);
	io_channel_write_blk64(ch, 5, 1, a);
	io_channel_flush(ch);
	io_channel_read_blk64(ch, 5, 1, b);          /* cached, clean */
	io_channel_set_options(ch, "cache=off");
	memset(a, 'B', 1024);
	io_channel_write_blk64(ch, 5, 1, a);          /* direct write */
	io_channel_set_options(ch, "cache=on");
	io_channel_read_blk64(ch, 5, 1, b);
	io_channel_close(ch);
	if (b[0] != 'B') { printf("DEFECT: read after cache=off/write/cache=on returned '%c', device has 'B'\n", b[0]); return 1; }
	printf("ok: coherent across cache=off/on\n"); return 0;
}
