#include <stdio.h>
#include <stdlib.h>
#include <string.h>
#include <ext2fs/ext2fs.h>
#define CHK(x) do { errcode_t e_ = (x); if (e_) { fprintf(stderr, "%d: %s: %s\n", __LINE__, #x, error_message(e_)); exit(2);} } while (0)
int main(int argc, char **argv)
{
	ext2_filsys a, b; blk64_t blk; char *buf; unsigned i; int bad = 0;
	initialize_ext2_error_table();
	CHK(ext2fs_open(argv[1], EXT2_FLAG_RW|EXT2_FLAG_64BITS, 0, 0, unix_io_manager, &a));
	CHK(ext2fs_open(argv[2], EXT2_FLAG_RW|EXT2_FLAG_64BITS, 0, 0, unix_io_manager, &b));
	CHK(ext2fs_read_bitmaps(a)); CHK(ext2fs_read_bitmaps(b));
	/* 1k fs first: static zero buffer becomes 1 x 1024 bytes */
	CHK(ext2fs_new_block2(a, 0, NULL, &blk));
	CHK(ext2fs_zero_blocks2(a, blk, 1, NULL, NULL));
	/* dirty the heap a little */
	for (i = 0; i < 64; i++) { char *p = malloc(3000); memset(p, 0x5a, 3000); if (i & 1) free(p); }
	/* 4k fs: fill a free block with 0xff, then "zero" it */
	CHK(ext2fs_new_block2(b, 0, NULL, &blk));
	buf = malloc(4096); memset(buf, 0xff, 4096);
	CHK(io_channel_write_blk64(b->io, blk, 1, buf));
	CHK(ext2fs_zero_blocks2(b, blk, 1, NULL, NULL));
	CHK(io_channel_read_blk64(b->io, blk, 1, buf));
	for (i = 0; i < 4096; i++) if (buf[i]) { printf("byte %u of the zeroed block is 0x%02x\n", i, (unsigned char) buf[i]); bad = 1; break; }
	if (!bad) printf("block is zero\n");
	ext2fs_close(a); ext2fs_close(b);
	return bad;
}
