/* Replay of the C17.c defect: unix_write_blk64 returns 0 when the eviction write of
 * reuse_cache() fails.  Runs on /dev/full (reads succeed, every write fails with ENOSPC).
 * Exit 0 = the failing write is reported, 1 = write claimed success. */
#include <stdio.h>
#include <string.h>
#include <stdlib.h>
#include "ext2fs/ext2fs.h"

int main(void)
{
	io_channel ch;
	char a[1024];
	errcode_t r = 0, f;
	int i;

	if (unix_io_manager->open("/dev/full", IO_FLAG_RW, &ch)) { printf("open failed\n"); return 3; }
	io_channel_set_blksize(ch, 1024);
	memset(a, 'A', sizeof(a));
	for (i = 0; i < 9; i++) {
		r = io_channel_write_blk64(ch, 100 + i, 1, a);
		printf("write %d -> %ld\n", i, (long) r);
	}
	f = io_channel_flush(ch);
	printf("flush -> %ld\n", (long) f);
	if (r == 0 && f != 0) {
		printf("DEFECT: 9th write needed an eviction whose pwrite failed, yet returned 0\n");
		return 1;
	}
	printf("ok: eviction failure reported by the write\n");
	return 0;
}
