#!/bin/sh
# replay: growing a sparse_super2 file system releases the old last group's
# backup blocks and nothing else (not the block bitmap behind them)
T=${1:-/repo}; D=$(mktemp -d); cd $D || exit 2
MKE2FS_CONFIG=/dev/null $T/misc/mke2fs -q -F -t ext4 -b 1024 -g 1024 -N 256 -O sparse_super2,^has_journal,^resize_inode,^flex_bg img 8192 >/dev/null 2>&1 || exit 2
$T/resize/resize2fs img 12288 >/dev/null 2>&1; r=$?
$T/e2fsck/e2fsck -fn img >fsck 2>&1; f=$?
echo "resize2fs exit $r; e2fsck -fn exit $f"; grep -m1 differences fsck
cd /; rm -rf "$D"; [ $r = 0 ] && [ $f = 0 ]
