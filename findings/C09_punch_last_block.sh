#!/bin/sh
# replay: punching a file whose extent ends at the last block of the file system
T=${1:-/repo}; D=$(mktemp -d); cd $D || exit 2
export MKE2FS_CONFIG=/dev/null
$T/misc/mke2fs -q -F -b 1024 -O extent,^has_journal,^resize_inode img 2048 2>/dev/null || exit 2
dd if=/dev/urandom of=big bs=1024 count=3000 2>/dev/null
$T/debugfs/debugfs -w -R "write big big" img >/dev/null 2>&1
$T/debugfs/debugfs -w -R "punch big 0" img 2>&1 | grep -i illegal
$T/e2fsck/e2fsck -fn img > out 2>&1; rc=$?
grep -i differences out; echo "e2fsck rc=$rc"
cd /; rm -rf "$D"; [ $rc -eq 0 ]
