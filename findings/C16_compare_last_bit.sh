#!/bin/sh
# replay: bitmaps differing only in their last bit must not compare equal
T=${1:-/repo}; D=$(mktemp -d); cd $D || exit 2
MKE2FS_CONFIG=$T/misc/mke2fs.conf $T/misc/mke2fs -q -F -t ext4 img 8M || exit 2
cc -I$T/lib -o cmpbm /verif/findings/C16_compare_last_bit.c $T/lib/libext2fs.a $T/lib/libcom_err.a -lpthread || exit 2
./cmpbm img; rc=$?
cd /; rm -rf "$D"; exit $rc
