#!/bin/sh
# replay: partial overwrite of an inline-data file
T=${1:-/repo}; H=$(cd "$(dirname "$0")" && pwd); D=$(mktemp -d); cd $D || exit 2
gcc -I$T/lib -o probe $H/C09_inline_write_pos.c $T/lib/libext2fs.a $T/lib/libcom_err.a -lpthread 2>/dev/null || { echo "compile failed"; exit 2; }
mkdir src; printf 'AAAAAAAAAA' > src/small
MKE2FS_CONFIG=$T/misc/mke2fs.conf $T/misc/mke2fs -q -F -t ext4 -O inline_data -d src img 4M >/dev/null 2>&1 || exit 2
./probe img; rc=$?
$T/e2fsck/e2fsck -fn img >/dev/null 2>&1 || { echo "e2fsck -fn not clean afterwards"; rc=1; }
cd /; rm -rf "$D"; exit $rc
