#include <stdio.h>
#include <stdlib.h>
#include <string.h>
#include <ext2fs/ext2fs.h>
#define CHK(x) do { errcode_t e_ = (x); if (e_) { fprintf(stderr, "%d: %s: %s\n", __LINE__, #x, error_message(e_)); exit(2);} } while (0)
#define SOFT(x) do { errcode_t e_ = (x); if (e_) fprintf(stderr, "%d: %s -> %s\n", __LINE__, #x, error_message(e_)); } while (0)
int main(int argc, char **argv)
{
	ext2_filsys fs; ext2_ino_t ino; struct ext2_inode inode; ext2_file_t f;
	unsigned char buf[256]; unsigned int n, i; int bad = 0;
	initialize_ext2_error_table();
	CHK(ext2fs_open(argv[1], EXT2_FLAG_RW|EXT2_FLAG_64BITS, 0, 0, unix_io_manager, &fs));
	CHK(ext2fs_read_bitmaps(fs));
	CHK(ext2fs_new_inode(fs, 2, LINUX_S_IFREG|0644, 0, &ino));
	memset(&inode, 0, sizeof(inode));
	inode.i_mode = LINUX_S_IFREG|0644; inode.i_links_count = 1;
	inode.i_flags |= EXT4_INLINE_DATA_FL;
	CHK(ext2fs_write_new_inode(fs, ino, &inode));
	CHK(ext2fs_inline_data_init(fs, ino));
	ext2fs_inode_alloc_stats2(fs, ino, +1, 0);
	CHK(ext2fs_link(fs, 2, "inl", ino, EXT2_FT_REG_FILE));
	CHK(ext2fs_file_open(fs, ino, EXT2_FILE_WRITE, &f));
	memset(buf, 'A', 50);
	CHK(ext2fs_file_write(f, buf, 50, &n));
	{ errcode_t e_ = ext2fs_file_set_size2(f, 10); printf("set_size2(10) on a 50-byte inline file: %s\n", e_ ? error_message(e_) : "ok"); if (e_) bad = 1; }
	CHK(ext2fs_file_llseek(f, 20, EXT2_SEEK_SET, NULL));
	memset(buf, 'B', 5);
	CHK(ext2fs_file_write(f, buf, 5, &n));
	CHK(ext2fs_file_close(f));
	CHK(ext2fs_file_open(fs, ino, 0, &f));
	memset(buf, 0xff, sizeof buf);
	CHK(ext2fs_file_read(f, buf, 200, &n));
	printf("read %u bytes:", n);
	for (i = 0; i < n; i++) printf(" %02x", buf[i]);
	printf("\n");
	/* expected: 10 x 'A', 10 x 0, 5 x 'B' */
	if (n != 25) bad = 1;
	for (i = 0; i < n && i < 25; i++) if (buf[i] != (i < 10 ? 'A' : i < 20 ? 0 : 'B')) bad = 1;
	CHK(ext2fs_file_close(f));
	CHK(ext2fs_close(fs));
	return bad;
}
