#!/usr/bin/env python3
# put two user UUIDs into the superblock of a journal device image (1k blocks: superblock at byte 2048)
import sys, struct, uuid
img, u1, u2 = sys.argv[1], uuid.UUID(sys.argv[2]), uuid.UUID(sys.argv[3])
with open(img, 'r+b') as f:
    f.seek(2048 + 0x40); f.write(struct.pack('>I', 2))
    f.seek(2048 + 0x100); f.write(u1.bytes + u2.bytes)
