#!/bin/sh
# replay: rbtree get_range on an empty tree; compare of cluster (bigalloc) bitmaps
T=${1:-/repo}; H=$(cd "$(dirname "$0")" && pwd); D=$(mktemp -d); cd $D || exit 2
gcc -I$T/lib -o probe $H/C16_rb_sibling.c $T/lib/libext2fs.a $T/lib/libcom_err.a -lpthread 2>/dev/null || { echo "compile failed"; exit 2; }
MKE2FS_CONFIG=$T/misc/mke2fs.conf $T/misc/mke2fs -q -F -t ext4 -O bigalloc -C 16384 img 32M >/dev/null 2>&1 || exit 2
./probe img; rc=$?
cd /; rm -rf "$D"; exit $rc
