#!/bin/sh
# replay: converting a qcow2 image back to raw gives the directly produced raw
# image, also when the output file existed before
T=${1:-/repo}; D=$(mktemp -d); cd $D || exit 2
MKE2FS_CONFIG=/dev/null $T/misc/mke2fs -q -F -t ext4 -b 1024 fs.img 8M >/dev/null 2>&1 || exit 2
head -c 8388608 /dev/zero | tr '\0' '\377' > direct.raw; cp direct.raw viaq.raw
$T/misc/e2image -r fs.img direct.raw >/dev/null 2>&1 || exit 2
$T/misc/e2image -Q fs.img q.img >/dev/null 2>&1 || exit 2
$T/misc/e2image -r q.img viaq.raw >/dev/null 2>&1 || exit 2
$T/e2fsck/e2fsck -fn direct.raw >/dev/null 2>&1; a=$?
$T/e2fsck/e2fsck -fn viaq.raw >/dev/null 2>&1; b=$?
echo "e2fsck -fn: raw image written directly over an old file: exit $a; raw image converted from qcow2 over the same old file: exit $b"
cd /; rm -rf "$D"; [ $a = 0 ] && [ $b = 0 ]
