#!/bin/sh
# usage: run_c17.sh coherence|evict [repo-root]
W=$1; R=${2:-/repo}
D=$(mktemp -d /tmp/c17rep.XXXXXX); trap 'rm -rf "$D"' EXIT
H=$(dirname "$0")
case $W in
 coherence) cc -o $D/t -I$R/lib $H/C17_cache_coherence.c $R/lib/ext2fs/libext2fs.a $R/lib/et/libcom_err.a -lpthread || exit 3
            dd if=/dev/zero of=$D/img bs=1k count=64 2>/dev/null; $D/t $D/img;;
 evict)     cc -o $D/t -I$R/lib $H/C17_evict_error.c $R/lib/ext2fs/libext2fs.a $R/lib/et/libcom_err.a -lpthread || exit 3
            $D/t;;
esac
case $W in
 nolock)    cc -g -o $D/t -I$R/lib $H/C17_nolock_unlock.c $R/lib/ext2fs/libext2fs.a $R/lib/et/libcom_err.a -lpthread || exit 3
            timeout 20 $D/t > $D/out0 2>&1; rc=$?
            if [ $rc -eq 124 ]; then echo "DEFECT: io_channel_set_blksize self-deadlocks on BOUNCE_MTX (failing write-out under FLUSH_NOLOCK)"; exit 1; fi
            timeout 300 valgrind --tool=helgrind -q $D/t > $D/out 2>&1
            if grep -q "unlocked a not-locked lock" $D/out; then grep -m3 "not-locked\|by 0x.*unix_" $D/out; echo "DEFECT: caller's mutex released by flush_cached_blocks(FLUSH_NOLOCK)"; exit 1; fi
            echo "ok: lock pairing intact"; exit 0;;
esac
case $W in
 nocache)   cc -o $D/t -I$R/lib $H/C17_nocache_toggle.c $R/lib/ext2fs/libext2fs.a $R/lib/et/libcom_err.a -lpthread || exit 3
            dd if=/dev/zero of=$D/img bs=1k count=64 2>/dev/null; $D/t $D/img;;
esac
