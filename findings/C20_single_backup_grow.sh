#!/bin/sh
# replay: growing a sparse_super2 file system that has one backup (in group 1)
# leaves a consistent file system whose backup is where the superblock says
T=${1:-/repo}; D=$(mktemp -d); cd $D || exit 2
MKE2FS_CONFIG=/dev/null $T/misc/mke2fs -q -F -t ext4 -O ^has_journal,^resize_inode,sparse_super2 -E num_backup_sb=1 -b 1024 -g 256 a.img 1500 >/dev/null 2>&1 || exit 2
b0=$($T/misc/dumpe2fs -h a.img 2>/dev/null | sed -n 's/^Backup block groups: *//p')
$T/resize/resize2fs a.img 3000 >/dev/null 2>&1; r=$?
b1=$($T/misc/dumpe2fs -h a.img 2>/dev/null | sed -n 's/^Backup block groups: *//p')
$T/e2fsck/e2fsck -fn a.img >fsck 2>&1; f=$?
echo "backup groups '$b0' -> '$b1'; resize2fs exit $r; e2fsck -fn exit $f"; grep -m1 "differences" fsck
# the backup the superblock names is usable
g=$(echo $b1 | awk '{print $1}'); cp a.img b.img
$T/e2fsck/e2fsck -fy -b $((g*256+1)) -B 1024 b.img >/dev/null 2>&1; fb=$?
echo "e2fsck -b (backup of group $g): exit $fb"
cd /; rm -rf "$D"; [ $r = 0 ] && [ $f = 0 ] && [ $fb -le 1 ]
