#!/bin/sh
# Replay of a C12 defect: after replaying an unfinished undo file for a file system that lives at an offset inside
# the device, e2undo marks "the file system" as needing a check - but opened the device without the offset, so it
# cleared EXT2_VALID_FS in whatever ext file system sits at offset 0 (a byte nothing had recorded), and left the
# restored one unmarked.
# Exit 0 = the unrelated file system at offset 0 is untouched and the restored one is marked (fixed); exit 1 otherwise.
# usage: C12_e2undo_offset_mark.sh [repo-root]   (uses the built binaries of that tree)
R=${1:-/repo}
D=$(mktemp -d /tmp/c12rep.XXXXXX)
trap 'rm -rf "$D"' EXIT
export MKE2FS_CONFIG=/dev/null E2FSPROGS_UNDO_DIR=$D
cd $D
dd if=/dev/zero of=b.img bs=1k count=8192 2>/dev/null
$R/misc/mke2fs -q -F -o Linux -b 1024 b.img 2048 >/dev/null 2>&1 || exit 3
$R/misc/mke2fs -q -F -o Linux -b 1024 -E offset=4194304 b.img 2048 >/dev/null 2>&1 || exit 3
cp b.img b0.img
UNDO_IO_SIMULATE_UNFINISHED=1 $R/misc/mke2fs -q -F -o Linux -b 1024 -O extent -E offset=4194304 -z $D/u2 b.img 2048 >/dev/null 2>&1 || exit 3
$R/misc/e2undo $D/u2 b.img > out 2>&1
# the first 4 MiB (the unrelated file system) must be what they were
if ! cmp -s -n 4194304 b0.img b.img; then
  echo "DEFECT: e2undo changed the unrelated file system at offset 0:"; cmp -l -n 4194304 b0.img b.img | head -3
  exit 1
fi
# the restored file system is the one that gets the mark: s_state (offset 1024+58 of its superblock) loses VALID_FS
st=$(dd if=b.img bs=1 skip=$((4194304+1024+58)) count=1 2>/dev/null | od -An -tu1 | tr -d ' ')
if [ "$((st & 1))" -ne 0 ]; then
  echo "DEFECT: the file system at the offset was not marked as needing a check (s_state=$st)"; exit 1
fi
echo "ok: the unrelated file system is untouched, the restored one is marked"; exit 0
