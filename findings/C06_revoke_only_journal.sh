#!/bin/sh
# replay: a journal made only of revoke blocks with the expected sequence must not hang e2fsck -y nor debugfs logdump
T=${1:-/repo}; H=$(cd "$(dirname "$0")" && pwd); D=$(mktemp -d); cd $D || exit 2
MKE2FS_CONFIG=/dev/null $T/misc/mke2fs -q -F -O has_journal,extent,^metadata_csum -b 1024 -J size=1 jimg 8192 >/dev/null 2>&1 || exit 2
J=$($T/debugfs/debugfs -R "bmap <8> 0" jimg 2>/dev/null)
python3 $H/C06_mkrevoke.py jimg 1024 $J >/dev/null || exit 2
$T/debugfs/debugfs -w -R "feature needs_recovery" jimg >/dev/null 2>&1
cp jimg jimg.orig
timeout -s KILL 30 $T/e2fsck/e2fsck -fy jimg >/dev/null 2>&1; r1=$?
cp jimg.orig jimg
timeout -s KILL 30 $T/debugfs/debugfs -R "logdump" jimg >/dev/null 2>&1; r2=$?
echo "e2fsck -fy exit $r1 (137 = killed after 30 s), debugfs logdump exit $r2"
cd /; rm -rf "$D"; [ $r1 -lt 128 ] && [ $r2 -lt 128 ]
