#!/bin/sh
# replay: ext2fs_zero_blocks2() writes zeroes, also on a second file system
# with larger blocks opened by the same process (zeroout not available)
T=${1:-/repo}; H=$(cd "$(dirname "$0")" && pwd); D=$(mktemp -d); cd $D || exit 2
MKE2FS_CONFIG=/dev/null $T/misc/mke2fs -q -F -t ext4 -b 1024 a.img 4M >/dev/null 2>&1 || exit 2
MKE2FS_CONFIG=/dev/null $T/misc/mke2fs -q -F -t ext4 -b 4096 b.img 8M >/dev/null 2>&1 || exit 2
cc -I$T/lib -o t $H/C09_zero_blocks_two_fs.c $T/lib/libext2fs.a $T/lib/libcom_err.a -lpthread 2>cc.err || { cat cc.err; exit 2; }
UNIX_IO_NOZEROOUT=1 ./t a.img b.img; rc=$?
cd /; rm -rf "$D"; exit $rc
