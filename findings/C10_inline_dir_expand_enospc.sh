#!/bin/sh
# replay: a create that has to expand an inline-data directory on a full file
# system fails - and leaves the directory and its names as they were
T=${1:-/repo}; D=$(mktemp -d); cd $D || exit 2
MKE2FS_CONFIG=/dev/null $T/misc/mke2fs -q -F -t ext4 -I 256 -O inline_data,^has_journal img 4M >/dev/null 2>&1 || exit 2
head -c 5000000 /dev/zero | tr '\0' x > big
N=$(python3 -c "print('n'*60)")
printf 'mkdir /d\nmknod /d/aa p\nmknod /d/bb p\nwrite big /big\nmknod /d/%s p\n' "$N" | $T/debugfs/debugfs -w img >out 2>&1
names=$($T/debugfs/debugfs -R "ls -p /d" img 2>/dev/null | grep -c "/aa/\|/bb/")
$T/e2fsck/e2fsck -fn img >fsck 2>&1; f=$?
echo "names aa/bb still in /d: $names of 2; e2fsck -fn exit $f"; grep -m2 "INLINE_DATA_FL\|corrupted\|Missing" fsck
cd /; rm -rf "$D"; [ "$names" = 2 ] && [ $f = 0 ]
