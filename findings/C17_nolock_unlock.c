/* Replay of the C17.d finding: flush_cached_blocks(FLUSH_NOLOCK) releases the caller's cache
 * mutex on the write-error path (it unlocks unconditionally before calling the write_error
 * handler and never re-acquires), so unix_set_blksize() then unlocks a mutex it no longer holds
 * and the rest of the retry loop touches the cache unlocked.
 * Run under: valgrind --tool=helgrind ./t   -> "unlocked a not-locked lock" before the fix. */
#include <stdio.h>
#include <string.h>
#include "ext2fs/ext2fs.h"

static errcode_t werr(io_channel c, unsigned long b, int n, const void *d, size_t s, int a, errcode_t e)
{
	return e;
}

int main(void)
{
	io_channel ch;
	char a[1024];
	errcode_t r;

	if (unix_io_manager->open("/dev/full", IO_FLAG_RW | IO_FLAG_THREADS, &ch)) return 3;
	io_channel_set_blksize(ch, 1024);
	ch->write_error = werr;
	memset(a, 'A', sizeof(a));
	io_channel_write_blk64(ch, 7, 1, a);        /* dirty cached block; device write will fail */
	r = io_channel_set_blksize(ch, 2048);      /* flush_cached_blocks(FLUSH_NOLOCK) under both locks */
	printf("set_blksize -> %ld\n", (long) r);
	return 0;
}
