#!/bin/sh
# replay: a fast-commit tag whose fc_len runs beyond the block must not make e2fsck read outside the block buffer
# (needs valgrind; exit 2 if it is not there)
T=${1:-/repo}; H=$(cd "$(dirname "$0")" && pwd); D=$(mktemp -d); cd $D || exit 2
command -v valgrind >/dev/null 2>&1 || { echo "valgrind missing"; exit 2; }
MKE2FS_CONFIG=$T/misc/mke2fs.conf $T/misc/mke2fs -q -F -t ext4 -O fast_commit,^metadata_csum -b 1024 -J size=4 img 16M >/dev/null 2>&1 || exit 2
J=$($T/debugfs/debugfs -R "bmap <8> 0" img 2>/dev/null)
python3 $H/C06_mkfc.py img 1024 $J >/dev/null || exit 2
$T/debugfs/debugfs -w -R "feature needs_recovery" img >/dev/null 2>&1
valgrind -q --error-exitcode=99 $T/e2fsck/e2fsck -fy img > out 2>&1; rc=$?
n=$(grep -c "Invalid read" out)
echo "e2fsck -fy under valgrind: exit $rc, invalid reads reported: $n"
cd /; rm -rf "$D"; [ $rc -ne 99 ] && [ $rc -lt 128 ]
