#!/bin/sh
# replay: debugfs rm of a file that owns an extended-attribute block must leave a consistent fs
T=${1:-/repo}; D=$(mktemp -d); cd $D || exit 2
export MKE2FS_CONFIG=$T/misc/mke2fs.conf
$T/misc/mke2fs -q -F -t ext4 -I 128 -O ^has_journal img 8M 2>/dev/null || exit 2
echo x > p
$T/debugfs/debugfs -w -R "write p f" img >/dev/null 2>&1
$T/debugfs/debugfs -w -R "ea_set f user.b $(head -c 300 /dev/zero | tr '\0' a)" img 2>/dev/null
$T/debugfs/debugfs -w -R "rm f" img 2>/dev/null
$T/e2fsck/e2fsck -fn img > out 2>&1; rc=$?
grep -i "differences" out; echo "e2fsck rc=$rc"
cd /; rm -rf "$D"; [ $rc -eq 0 ]
