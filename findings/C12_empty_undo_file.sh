#!/bin/sh
# replay: a -z run that changes nothing leaves an undo file that e2undo accepts
# (and that restores the - unchanged - bytes), and that a second -z run can append to
T=${1:-/repo}; D=$(mktemp -d); cd $D || exit 2
MKE2FS_CONFIG=/dev/null $T/misc/mke2fs -q -F -t ext4 img 8M >/dev/null 2>&1 || exit 2
before=$(sha256sum < img)
$T/e2fsck/e2fsck -fn -z $D/U img >/dev/null 2>&1; e=$?
$T/misc/e2undo U img >out 2>&1; u=$?
after=$(sha256sum < img)
echo "e2fsck -fn -z U on a clean file system: exit $e; e2undo U: exit $u ($(head -1 out | cut -c1-60)); image unchanged: $([ "$before" = "$after" ] && echo yes || echo no)"
cd /; rm -rf "$D"; [ $u = 0 ] && [ "$before" = "$after" ]
