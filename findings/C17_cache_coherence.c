/* Replay of the C17.a defect: unix_io's cache keeps clean entries across a bypass write.
 * Build: cc -I$R/lib -I$R/lib/ext2fs C17_cache_coherence.c $R/lib/ext2fs/libext2fs.a $R/lib/et/libcom_err.a -lpthread
 * Exit 0 = coherent, 1 = stale read observed. */
#include <stdio.h>
#include <string.h>
#include <stdlib.h>
#include <unistd.h>
#include <fcntl.h>
#include "ext2fs/ext2fs.h"

static int check(io_channel ch, unsigned long long blk, char want, const char *what)
{
	char buf[1024];
	if (io_channel_read_blk64(ch, blk, 1, buf)) { printf("read error\n"); exit(3); }
	if (buf[0] != want || buf[1023] != want) {
		printf("STALE after %s: block %llu reads '%c' (0x%02x), device has '%c' (0x%02x)\n",
		       what, blk, buf[0] ? buf[0] : '0', (unsigned char)buf[0], want ? want : '0', (unsigned char)want);
		return 1;
	}
	return 0;
}

int main(int argc, char **argv)
{
	io_channel ch;
	char a[1024], big[8 * 1024];
	int bad = 0;
	const char *f = argv[1];

	if (unix_io_manager->open(f, IO_FLAG_RW, &ch)) { printf("open failed\n"); return 3; }
	io_channel_set_blksize(ch, 1024);
	memset(a, 'A', sizeof(a));
	memset(big, 'B', sizeof(big));
	/* 1: >4-block write over a clean cached block */
	io_channel_write_blk64(ch, 5, 1, a);
	io_channel_flush(ch);
	check(ch, 5, 'A', "setup");                 /* block 5 now cached and clean */
	io_channel_write_blk64(ch, 5, 8, big);        /* bypass write (count > WRITE_DIRECT_SIZE) */
	bad |= check(ch, 5, 'B', "8-block write");
	/* 2: zeroout over a clean cached block */
	io_channel_write_blk64(ch, 20, 1, a);
	io_channel_flush(ch);
	check(ch, 20, 'A', "setup");
	if (io_channel_zeroout(ch, 20, 1) == 0)
		bad |= check(ch, 20, 0, "zeroout");
	/* 3: byte write over a clean cached block */
	io_channel_write_blk64(ch, 30, 1, a);
	io_channel_flush(ch);
	check(ch, 30, 'A', "setup");
	memset(a, 'C', sizeof(a));
	io_channel_write_byte(ch, 30 * 1024, 1024, a);
	bad |= check(ch, 30, 'C', "write_byte");
	io_channel_close(ch);
	printf(bad ? "DEFECT: stale cached block returned\n" : "ok: cache coherent\n");
	return bad;
}
