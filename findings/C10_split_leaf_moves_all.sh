#!/bin/bash
# Side observation (NOT the seeded defect): on the unchanged tree
# dx_split_leaf() can decide to move *every* live entry of a leaf (i == 0).
# It then reads map[-1], and "repacks" the old leaf with zero entries, which
# leaves a stale copy of the lowest-hash entry in the old leaf: that name is
# now present twice.
#
# Leaf layout needed (1k blocks, no metadata_csum):
#   [unused 260 bytes @0][A: 260 bytes, exact][B: 264 bytes + 240 slack]
#   with hash(A) > hash(B); then a 255-character name hashing into the leaf.
#
# usage: sideobs_split_leaf.sh <built tree>     exit 0 = no duplicate seen
T=${1:?tree}
MKE2FS=$T/misc/mke2fs; DEBUGFS=$T/debugfs/debugfs; E2FSCK=$T/e2fsck/e2fsck
W=$(mktemp -d); trap 'rm -rf "$W"' EXIT
img=$W/img
"$MKE2FS" -q -F -b 1024 -t ext4 -O ^metadata_csum \
	-E hash_seed=6a8f1b3c-2d4e-4f60-9a7b-0c1d2e3f4a5b -N 256 "$img" 8M || exit 2
{ echo "mkdir /d"; for i in $(seq 1 45); do printf 'mknod /d/x%03d_%0245d p\n' $i 0; done; } |
	"$DEBUGFS" -w "$img" > /dev/null 2>&1
"$E2FSCK" -fyD "$img" > /dev/null 2>&1
"$DEBUGFS" -R "htree_dump /d" "$img" 2>/dev/null > "$W/htree"
# pick the first leaf (not the very first one) that holds exactly 3 entries;
# print: lo hi  hashX nameX  hashA nameA  nameC
awk '
/^Entry #[0-9]+: Hash 0x/ && !seen_leaf { h = $4; sub(/,/, "", h); idx[++ni] = h }
/^Reading directory block/ { seen_leaf = 1; if (n == 3 && leaf > 1 && !done) {
	printf "%s %s %s %s %s %s %s\n", idx[leaf], idx[leaf+1], hs[1], nm[1], hs[2], nm[2], nm[3]; done = 1 }
	n = 0; leaf++ ; next }
/^[0-9]+ 0x[0-9a-f]+-[0-9a-f]+ \([0-9]+\) / { n++; split($2, p, "-"); hs[n] = p[1]; nm[n] = $4 }
' "$W/htree" > "$W/pick"
read lo hi hX nX hA nA nC < "$W/pick"
[ -n "$nC" ] && [ -n "$hi" ] || { echo "could not pick a leaf"; exit 2; }
echo "leaf range [$lo,$hi): X=$hX A=$hA"
# candidate 255-character names and their hashes
for i in $(seq 1 400); do printf 'dx_hash c%03d_%0250d\n' $i 0; done |
	"$DEBUGFS" "$img" 2>/dev/null | awk '/^Hash of/ { print $5, $3 }' > "$W/cand"
B=$(awk -v lo=$((lo)) -v top=$((hA)) '{ h = strtonum($1) } h >= lo && h < top { print $2; exit }' "$W/cand")
N=$(awk -v lo=$((lo)) -v hi=$((hi)) -v b="$B" '{ h = strtonum($1) } h >= lo && h < hi && $2 != b { print $2; exit }' "$W/cand")
[ -n "$B" ] && [ -n "$N" ] || { echo "no suitable candidate names"; exit 2; }
printf 'rm /d/%s\nmknod /d/%s p\nrm /d/%s\nmknod /d/%s p\n' "$nC" "$B" "$nX" "$N" |
	"$DEBUGFS" -w "$img" > /dev/null 2>&1
"$DEBUGFS" -R "ls -p /d" "$img" 2>/dev/null |
	awk -F/ 'NF >= 7 && $2 != 0 { print $6 }' | sort | uniq -d > "$W/dups"
"$E2FSCK" -fn "$img" > "$W/fsck" 2>&1; st=$?
if [ -s "$W/dups" ] || [ $st -ne 0 ]; then
	echo "names listed twice:"; cut -c1-40 "$W/dups"
	echo "e2fsck -fn exit $st"; grep -v '^Pass\|^e2fsck' "$W/fsck" | cut -c1-90 | head
	exit 1
fi
echo "no duplicate, e2fsck clean"
exit 0
