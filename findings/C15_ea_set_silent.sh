#!/bin/sh
# replay: debugfs ea_set on a file system without the ext_attr feature must
# either store the attribute or say that it did not
T=${1:-/repo}; D=$(mktemp -d); cd $D || exit 2
MKE2FS_CONFIG=/dev/null $T/misc/mke2fs -q -F -t ext2 -O ^ext_attr img 4M >/dev/null 2>&1 || exit 2
echo hello > f; $T/debugfs/debugfs -w -R "write f a" img >/dev/null 2>&1
out=$($T/debugfs/debugfs -w -R "ea_set a user.x 0123456789" img 2>&1 | grep -v "^debugfs ")
back=$($T/debugfs/debugfs -R "ea_get a user.x" img 2>/dev/null | grep -c 0123456789)
echo "ea_set said: '${out}'; value found afterwards: $back"
cd /; rm -rf "$D"; [ -n "$out" ] || [ "$back" = 1 ]
