/* a value that does not fit the free space: the set fails, and must leave nothing allocated */
#include <stdio.h>
#include <stdlib.h>
#include <string.h>
#include <ext2fs/ext2fs.h>
int main(int argc, char **argv)
{
	ext2_filsys fs; struct ext2_xattr_handle *h; errcode_t e; ext2_ino_t ino; char *buf; size_t n = 60000;
	if (ext2fs_open(argv[1], EXT2_FLAG_RW | EXT2_FLAG_64BITS, 0, 0, unix_io_manager, &fs)) return 2;
	if (ext2fs_read_bitmaps(fs)) return 2;
	if (ext2fs_namei(fs, EXT2_ROOT_INO, EXT2_ROOT_INO, "f", &ino)) return 2;
	buf = malloc(n); memset(buf, 'v', n);
	if (ext2fs_xattrs_open(fs, ino, &h) || ext2fs_xattrs_read(h)) return 2;
	e = ext2fs_xattr_set(h, "user.huge", buf, n);
	printf("set of a %zu-byte value on a file system with ~60 free blocks: error %ld\n", n, (long) e);
	ext2fs_xattrs_close(&h);
	ext2fs_close(fs);
	return e ? 0 : 3;
}
