#!/bin/sh
# replay: qcow2 -> raw conversion of an all-data image of a full file system must equal the direct raw image
T=${1:-/repo}; D=$(mktemp -d); cd $D || exit 2
export MKE2FS_CONFIG=$T/misc/mke2fs.conf
$T/misc/mke2fs -q -F -t ext4 -b 1024 -m 0 -O ^has_journal,^resize_inode -N 16 fs.img 32M || exit 2
head -c 40000000 /dev/urandom > big
$T/debugfs/debugfs -w -R "write big big" fs.img >/dev/null 2>&1
$T/misc/e2image -ra fs.img a.raw 2>/dev/null; $T/misc/e2image -Qa fs.img a.qcow 2>/dev/null
$T/misc/e2image -r a.qcow a2.raw 2>/dev/null
if cmp -s a.raw a2.raw; then echo "OK: qcow2->raw equals raw"; rc=0; else echo "FAIL: $(cmp a.raw a2.raw 2>&1 | head -1)"; rc=1; fi
cd /; rm -rf "$D"; exit $rc
