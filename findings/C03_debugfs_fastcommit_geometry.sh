#!/bin/sh
# Replay of the C03 defect: debugfs's journal loader lacks the fast-commit geometry
# (j_fc_last stays 0), so with JBD2_FEATURE_INCOMPAT_FAST_COMMIT set in the journal
# superblock `debugfs -R jr` "recovers" without replaying committed transactions.
# Exit 0 = both front-ends replay block 333 identically.
R=${1:-/repo}
D=$(mktemp -d /tmp/c03rep.XXXXXX); trap 'rm -rf "$D"' EXIT
export MKE2FS_CONFIG=$R/tests/mke2fs.conf E2FSCK_CONFIG=/dev/null
dd if=/dev/zero of=$D/a.img bs=1k count=32768 2>/dev/null
$R/misc/mke2fs -q -F -o Linux -b 1024 -t ext4 -O has_journal,fast_commit -J size=4 $D/a.img >/dev/null 2>&1 || exit 3
python3 -c "import sys; sys.stdout.buffer.write(b'LOGGED-IMAGE-333 '*60+b'x'*4)" > $D/blk.bin
{ echo "jo"; echo "jw -b 333 $D/blk.bin"; echo "jc"; } | $R/debugfs/debugfs -w $D/a.img >/dev/null 2>&1
# journal inode 8: find its first block and set incompat bit 0x20 (FAST_COMMIT) in the journal superblock
JB=$($R/debugfs/debugfs -R "bmap <8> 0" $D/a.img 2>/dev/null)
python3 - "$D/a.img" "$JB" <<'PY'
import sys
f=open(sys.argv[1],'r+b'); off=int(sys.argv[2])*1024+0x28
f.seek(off); v=int.from_bytes(f.read(4),'big')|0x20
f.seek(off); f.write(v.to_bytes(4,'big')); f.close()
PY
cp $D/a.img $D/b.img
$R/e2fsck/e2fsck -fy $D/a.img >$D/o1 2>&1
$R/debugfs/debugfs -w -R "jr" $D/b.img >$D/o2 2>&1
A=$(dd if=$D/a.img bs=1k skip=333 count=1 2>/dev/null | sha256sum)
B=$(dd if=$D/b.img bs=1k skip=333 count=1 2>/dev/null | sha256sum)
W=$(sha256sum < $D/blk.bin)
if [ "$A" != "$W" ]; then echo "setup problem: e2fsck did not replay block 333"; cat $D/o1 | tail -5; exit 3; fi
if [ "$B" != "$W" ]; then echo "DEFECT: debugfs jr reported success but block 333 was not replayed (e2fsck replays it)"; exit 1; fi
echo "ok: both front-ends replayed block 333"; exit 0
