#!/bin/sh
# Side observation (UNCHANGED tree): debugfs "cat"/"dump" (read-only) on an
# inline-data file whose "system.data" attribute is stored in an EA inode
# overflows the heap buffer of the ext2_file_t (3 * blocksize bytes):
# ext2fs_inline_data_get() copies 60 + value_size bytes into it unchecked.
# usage: side_inline_eainode.sh <built tree>; exit 0 = no crash seen.
T=${1:?usage}
D=$(mktemp -d) || exit 2
trap 'rm -rf "$D"' EXIT
: > "$D/conf"; MKE2FS_CONFIG=$D/conf; export MKE2FS_CONFIG
img=$D/img
"$T/misc/mke2fs" -q -F -t ext4 -b 1024 -I 256 \
	-O extent,inline_data,ea_inode,^metadata_csum "$img" 8M 2>/dev/null || exit 2
echo hello > "$D/small"
"$T/debugfs/debugfs" -w -R "write $D/small f" "$img" >/dev/null 2>&1
# an 8000 byte value: goes to an EA inode (debugfs reads lines in 8k pieces)
v=$(head -c 8000 /dev/zero | tr '\0' 'A')
echo "ea_set f user.data $v" > "$D/cmd"
"$T/debugfs/debugfs" -w -f "$D/cmd" "$img" >/dev/null 2>&1
# inode 12: find it, then swap the name indexes of the two in-inode entries
# ("system.data" (empty) <-> "user.data" (EA inode)); both are named "data".
loc=$("$T/debugfs/debugfs" -R "imap f" "$img" 2>/dev/null |
	sed -n 's/.*located at block \([0-9]*\), offset 0x\([0-9a-f]*\).*/\1 \2/p')
set -- $loc
base=$(( $1 * 1024 + 0x$2 ))
# in-inode xattr area starts at 128 + i_extra_isize(32); magic 4 bytes;
# entry 1 at +4 (e_name_index at +5), entry 2 at +24 (e_name_index at +25)
printf '\001' | dd of="$img" bs=1 seek=$((base + 160 + 5)) conv=notrunc status=none
printf '\007' | dd of="$img" bs=1 seek=$((base + 160 + 25)) conv=notrunc status=none
"$T/debugfs/debugfs" -w -R "sif f size 8060" "$img" >/dev/null 2>&1
"$T/debugfs/debugfs" -R "ea_list f" "$img" 2>&1 | cut -c1-60
"$T/debugfs/debugfs" -R "cat f" "$img" >/dev/null 2>"$D/err"
rc=$?
echo "debugfs cat: exit $rc"; head -2 "$D/err" | cut -c1-100
[ $rc -lt 128 ]
