#!/bin/sh
# replay: an extent leaf block whose header claims depth 3 must not pass e2fsck -fn
T=${1:-/repo}; D=$(mktemp -d); cd $D || exit 2
MKE2FS_CONFIG=$T/misc/mke2fs.conf $T/misc/mke2fs -q -F -t ext4 -b 1024 -O ^metadata_csum img 8M >/dev/null 2>&1 || exit 2
python3 - <<'PY'
f=open('sparse','wb')
for i in range(8):
    f.seek(i*8192); f.write(b'x'*1024)
f.close()
PY
$T/debugfs/debugfs -w -R "write sparse sparse" img >/dev/null 2>&1
leaf=$($T/debugfs/debugfs -R "ex sparse" img 2>/dev/null | awk '$1=="0/" {print $8; exit}')
[ -n "$leaf" ] || { echo "no depth-1 tree"; $T/debugfs/debugfs -R "ex sparse" img | head -5; exit 2; }
$T/e2fsck/e2fsck -fn img >/dev/null 2>&1 || { echo "fresh fs not clean"; exit 2; }
printf '\003\000' | dd of=img bs=1 seek=$((leaf*1024+6)) conv=notrunc 2>/dev/null
$T/e2fsck/e2fsck -fn img >out 2>&1; rc=$?
echo "leaf block $leaf with eh_depth=3: e2fsck -fn exit $rc"
cd /; rm -rf "$D"; [ $rc -ne 0 ]
