#!/bin/sh
# Replay of a C01 defect: on an orphan_file fs whose has_journal flag is clear, `e2fsck -fy` removes the
# orphan file (PR_6_ORPHAN_FILE_WITHOUT_JOURNAL) but never releases its inode in the inode bitmap, exits 1
# ("fixed"), and the next `e2fsck -fn` reports "Inode bitmap differences: -12" and exits 4.
R=${1:-/repo}
D=$(mktemp -d /tmp/c01rep.XXXXXX); trap 'rm -rf "$D"' EXIT
export MKE2FS_CONFIG=$R/tests/mke2fs.conf E2FSCK_CONFIG=/dev/null
dd if=/dev/zero of=$D/a.img bs=1k count=16384 2>/dev/null
$R/misc/mke2fs -q -F -t ext4 -O orphan_file $D/a.img >/dev/null 2>&1 || exit 3
$R/debugfs/debugfs -w -R "feature ^has_journal" $D/a.img >/dev/null 2>&1
$R/e2fsck/e2fsck -fy $D/a.img >$D/o1 2>&1; r1=$?
$R/e2fsck/e2fsck -fn $D/a.img >$D/o2 2>&1; r2=$?
if [ $r1 -le 1 ] && [ $r2 -ne 0 ]; then echo "DEFECT: e2fsck -fy exited $r1 (success) but the following e2fsck -fn exits $r2:"; grep -i "differences\|wrong" $D/o2 | head -3; exit 1; fi
echo "ok: repair converged (fy=$r1 fn=$r2)"; exit 0
