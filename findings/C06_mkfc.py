# usage: mkfc.py IMG BLOCKSIZE FIRST_JOURNAL_BLOCK : make the journal look like it needs recovery, with an empty normal log and
# one fast-commit block holding a valid HEAD tag followed by a tag whose fc_len runs far beyond the block
import struct, sys
img, bs, jb = sys.argv[1], int(sys.argv[2]), int(sys.argv[3])
f = open(img, 'r+b')
f.seek(jb * bs); jsb = bytearray(f.read(1024))
magic, btype, seq0, jbs, maxlen, first, seq, start = struct.unpack('>8I', jsb[:32])
assert magic == 0xC03B3998 and jbs == bs
incompat = struct.unpack('>I', jsb[40:44])[0] | 0x20          # JBD2_FEATURE_INCOMPAT_FAST_COMMIT
jsb[40:44] = struct.pack('>I', incompat)
jsb[28:32] = struct.pack('>I', first)                        # s_start: log "in use"
nfc = struct.unpack('>I', jsb[84:88])[0] or 256
f.seek(jb * bs); f.write(jsb)
fcfirst = maxlen - nfc + 1
blk = struct.pack('<HHII', 9, 8, 0, seq)                      # HEAD: features 0, tid = expected sequence
blk += struct.pack('<HH', 1, 0xfff0) + b'\0' * 16             # ADD_RANGE with fc_len 0xfff0
blk = blk.ljust(bs, b'\0')
f.seek((jb + fcfirst) * bs); f.write(blk)
f.close()
print("maxlen", maxlen, "first", first, "seq", seq, "num_fc", nfc, "fc block", fcfirst)
