#!/bin/sh
# replay: resize2fs -f -P on a superblock with more free inodes than inodes must not crash
T=${1:-/repo}; D=$(mktemp -d); cd $D || exit 2
MKE2FS_CONFIG=$T/misc/mke2fs.conf $T/misc/mke2fs -q -F -t ext4 -O ^flex_bg a.img 8M >/dev/null 2>&1 || exit 2
$T/debugfs/debugfs -w -R "ssv free_inodes_count 4000000000" a.img >/dev/null 2>&1
$T/resize/resize2fs -f -P a.img >/dev/null 2>&1; rc=$?
echo "resize2fs -f -P: exit $rc (139 = SIGSEGV)"
cd /; rm -rf "$D"; [ $rc -lt 128 ]
