#!/bin/sh
# Replay of the C11 defect: tune2fs -O metadata_csum (or a UUID change without csum_seed) on a
# filesystem with orphan_file leaves the orphan-file blocks with stale checksums.
# Exit 0 = the follow-up e2fsck -fn is clean.
R=${1:-/repo}
D=$(mktemp -d /tmp/c11rep.XXXXXX); trap 'rm -rf "$D"' EXIT
export MKE2FS_CONFIG=$R/tests/mke2fs.conf E2FSCK_CONFIG=/dev/null
bad=0
dd if=/dev/zero of=$D/a.img bs=1k count=16384 2>/dev/null
$R/misc/mke2fs -q -F -t ext4 -O orphan_file,^metadata_csum $D/a.img >/dev/null 2>&1 || exit 3
$R/e2fsck/e2fsck -fn $D/a.img >/dev/null 2>&1 || { echo "setup: fresh fs not clean"; exit 3; }
$R/misc/tune2fs -O metadata_csum $D/a.img >$D/o1 2>&1 || { echo "tune2fs failed"; cat $D/o1; exit 3; }
$R/e2fsck/e2fsck -fn $D/a.img >$D/o2 2>&1; rc=$?
if [ $rc -ne 0 ]; then echo "DEFECT: after tune2fs -O metadata_csum on an orphan_file fs, e2fsck -fn exits $rc:"; grep -i orphan $D/o2 | head -3; bad=1; fi
# UUID change on a metadata_csum fs without csum_seed
dd if=/dev/zero of=$D/b.img bs=1k count=16384 2>/dev/null
$R/misc/mke2fs -q -F -t ext4 -O orphan_file,metadata_csum,^metadata_csum_seed $D/b.img >/dev/null 2>&1 || exit 3
$R/misc/tune2fs -f -U 11111111-2222-3333-4444-555555555555 $D/b.img >$D/o3 2>&1
$R/e2fsck/e2fsck -fn $D/b.img >$D/o4 2>&1; rc=$?
if [ $rc -ne 0 ]; then echo "DEFECT: after tune2fs -U on an orphan_file,metadata_csum fs, e2fsck -fn exits $rc:"; grep -i orphan $D/o4 | head -3; bad=1; fi
[ $bad = 0 ] && echo "ok: orphan file checksums follow metadata_csum / UUID changes"
exit $bad
