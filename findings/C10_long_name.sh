#!/bin/sh
# replay: a name longer than 255 bytes must be refused, not stored cut to its length modulo 256
T=${1:-/repo}; D=$(mktemp -d); cd $D || exit 2
MKE2FS_CONFIG=$T/misc/mke2fs.conf $T/misc/mke2fs -q -F -t ext4 img 4M >/dev/null 2>&1 || exit 2
long=$(head -c 300 /dev/zero | tr '\0' 'x')
$T/debugfs/debugfs -w -R "mknod $long p" img > out 2>&1
n=$($T/debugfs/debugfs -R "ls -l /" img 2>/dev/null | grep -c "xxxxxxxx")
echo "entries created for a 300-byte name: $n (want 0)"; tail -1 out | cut -c1-100
cd /; rm -rf "$D"; [ "$n" = 0 ]
